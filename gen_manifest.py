#!/usr/bin/env python3
"""Regenerate MANIFEST.json from props/registry.py (single source of truth for what is claimed)."""
import json, os, sys
sys.path.insert(0, os.path.dirname(os.path.abspath(__file__)))
from props.registry import CLAIMED, NOT_APPLICABLE, NOT_BUILT

checks = []
for pid, info in sorted(CLAIMED.items()):
    checks.append({
        "property_id": pid,
        "quick_cmd": f"./check {pid} --tier quick",
        "thorough_cmd": f"./check {pid} --tier thorough",
        "evidence_file": f"evidence/{pid}.json",
        "replay_cmd_template": f"./check {pid} --replay {{path}}",
        "engine": "symx",
        "level_claimed": {
            "category": "model_checking",
            "text": info["text"],
            "design_ref": info["design_ref"],
        },
        "level_note": info["note"],
        "technique": info["technique"],
    })
na = [{"property_id": p, "reason": r} for p, r in sorted({**NOT_APPLICABLE, **NOT_BUILT}.items())]
m = {
    "version": 1,
    "setup_cmd": "./setup.sh",
    "hooks": {
        "guard": "PYMODES_VERIF",
        "enable": "no source hooks: checks load /repo/src through an import hook in the check process (reserved guard, unused)",
        "baseline_off_cmd": "cd /repo && /venv/bin/python -m pytest -ra -q -p no:cacheprovider --timeout=900 --continue-on-collection-errors",
        "source_commits": [],
        "add_only": True,
    },
    "engines": [{
        "name": "symx",
        "path": "symx/",
        "serves_properties": sorted(CLAIMED),
        "kind_free_text": "symbolic execution of the real pyModeS source under CPython with z3-backed proxy values "
                          "(re-execution DFS over path conditions), SMT obligations against independent oracles in spec/, "
                          "counterexamples replayed on the unpatched code in a separate interpreter",
    }],
    "checks": checks,
    "not_applicable": na,
    "notes": "exit 0 held / 1 VIOLATION (replayed on unpatched code) / 2 inconclusive (solver unknown, unsupported construct, "
             "non-reproducing counterexample). See DESIGN.md.",
}
json.dump(m, open(os.path.join(os.path.dirname(os.path.abspath(__file__)), "MANIFEST.json"), "w"), indent=1)
print("MANIFEST.json:", len(checks), "checks,", len(na), "not claimed")
