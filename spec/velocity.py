"""DO-260B 2.2.3.2.6 airborne velocity (subtypes 1-4) and 2.2.3.2.4.2 surface movement / ground track.
Concrete twins (Python) used to judge replayed counterexamples; the symbolic claims are built in props/c09.py
from the same tables."""
import math

# movement code -> (first code, last code, speed of first code in kt, step)
MOVEMENT = [(2, 8, 0.125, 0.125), (9, 12, 1.0, 0.25), (13, 38, 2.0, 0.5), (39, 93, 15.0, 1.0),
            (94, 108, 70.0, 2.0), (109, 123, 100.0, 5.0)]


def movement_kt(mov):
    if mov == 0 or mov > 124:
        return None
    if mov == 1:
        return 0.0
    if mov == 124:
        return 175.0
    for lo, hi, base, step in MOVEMENT:
        if lo <= mov <= hi:
            return base + (mov - lo) * step
    raise AssertionError(mov)


def me_bits(msg):
    return bin(int(msg, 16))[2:].zfill(len(msg) * 4)[32:88]


def field(me, first, last):
    """ME bits first..last (1-based, inclusive)"""
    return int(me[first - 1:last], 2)


def airborne_velocity(msg, source=False):
    """expected result for DF17/18 TC19, subtype 1..4"""
    me = me_bits(msg)
    st = field(me, 6, 8)
    vr_src = "GNSS" if field(me, 36, 36) == 0 else "BARO"
    vr = field(me, 38, 46)
    vs = None if vr == 0 else (-1 if field(me, 37, 37) else 1) * (vr - 1) * 64
    k = 4 if st in (2, 4) else 1
    if st in (1, 2):
        ew, ns = field(me, 15, 24), field(me, 26, 35)
        if ew == 0 or ns == 0:
            return None
        v_we = (-1 if field(me, 14, 14) else 1) * (ew - 1) * k
        v_sn = (-1 if field(me, 25, 25) else 1) * (ns - 1) * k
        spd = int(math.sqrt(v_we * v_we + v_sn * v_sn))
        trk = math.degrees(math.atan2(v_we, v_sn)) % 360
        r = (spd, trk, vs, "GS", "TRUE_NORTH", vr_src)
    else:
        hdg = None if field(me, 14, 14) == 0 else field(me, 15, 24) * 360.0 / 1024
        a = field(me, 26, 35)
        spd = None if a == 0 else (a - 1) * k
        r = (spd, hdg, vs, "TAS" if field(me, 25, 25) else "IAS", "MAGNETIC_NORTH", vr_src)
    return r if source else r[:4]


def altitude_diff(msg):
    me = me_bits(msg)
    v = field(me, 50, 56)
    if v == 0:
        return [None]
    s = -1 if field(me, 49, 49) else 1
    if v == 127:
        return [None, s * 3150]       # "> 3137.5 ft": either 'no number' or the saturated value is accepted
    return [s * (v - 1) * 25]


def surface_velocity(msg, source=False):
    me = me_bits(msg)
    spd = movement_kt(field(me, 6, 12))
    trk = field(me, 14, 20) * 360.0 / 128 if field(me, 13, 13) else None
    r = (spd, trk, 0, "GS", "TRUE_NORTH", None)
    return r if source else r[:4]
