"""Uplink address/parity (Annex 10 Vol IV 3.1.2.3.3.2): AP = parity(data) XOR b, where b = the 24 high-order
coefficients of G(x)*A(x) (the 'modified address'); field layout of UF4/5/20/21 and UF11 (3.1.2.6.1, 3.1.2.5.2.1)."""
from symx.core import ZERO1, bxor
from spec.crc import GEN, parity_of_data_bits


def modified_address(abits):
    """abits: 24 Bits (a1..a24, MSB first). Coefficients of x^47..x^24 of G(x)*A(x)."""
    prod = [ZERO1] * 48            # index k = coefficient of x^(47-k)
    for i, a in enumerate(abits):      # a_i is the coefficient of x^(23-i)
        for j in range(25):            # g_j is the coefficient of x^(24-j)
            if (GEN >> (24 - j)) & 1:
                deg = (23 - i) + (24 - j)
                prod[47 - deg] = bxor(prod[47 - deg], a)
    return prod[:24]


def ap_bits(data_bits, abits):
    return [bxor(p, b) for p, b in zip(parity_of_data_bits(data_bits), modified_address(abits))]
