"""DO-260B Appendix A.1.7 compact position reporting: the ENCODER (A.1.7.3) and NL (A.1.7.2) as an oracle.

Never imports pyModeS. The encoder is given twice: as z3 constraints over symbolic real positions (used in the
obligations) and as a concrete Python twin over Fractions (used to judge replayed counterexamples).

NL(lat) = floor(2 pi / arccos(1 - (1 - cos(pi/30)) / cos^2(lat)))  for 0 < |lat| < 87; 59 at 0; 2 at 87; 1 beyond.
Equivalently NL = n  iff  T(n+1) < |lat| <= T(n) with the transition latitudes
T(n) = arccos( sqrt( (1 - cos(pi/30)) / (1 - cos(2 pi / n)) ) ), n = 2..59 (T(2) = 87 exactly), T(60) := 0, T(1) := 90.
"""
import math
from fractions import Fraction

import z3

NB = 17
P = 1 << NB


def T(n):
    if n >= 60:
        return 0.0
    if n <= 1:
        return 90.0
    if n == 2:
        return 87.0
    return math.degrees(math.acos(math.sqrt((1 - math.cos(math.pi / 30)) / (1 - math.cos(2 * math.pi / n)))))


TRANSITIONS = {n: T(n) for n in range(2, 60)}
SLIVER = Fraction(1, 10 ** 9)      # latitudes closer than this to a transition are outside every CPR claim


def NL(lat):
    """concrete NL of a latitude (float or Fraction)"""
    a = abs(float(lat))
    if a > 87:
        return 1
    for n in range(59, 1, -1):
        if a <= T(n):
            return n
    return 1


def band(n):
    """(lo, hi) rational bounds of |lat| such that NL = n, shrunk by SLIVER at each transition"""
    lo = Fraction(T(n + 1)).limit_denominator(10 ** 12) + SLIVER if n < 59 else Fraction(0)
    hi = Fraction(T(n)).limit_denominator(10 ** 12) - SLIVER if n > 1 else Fraction(90)
    return lo, hi


def Q(fr):
    fr = Fraction(fr)
    return z3.RealVal("%d/%d" % (fr.numerator, fr.denominator))


def zfloor(x, name, cons):
    k = z3.Int(name)
    cons.append(z3.ToReal(k) <= x)
    cons.append(x < z3.ToReal(k) + 1)
    return k


def in_band(r, n, sign):
    """|r| inside band n on the given side of the equator (sign = +1 north incl. 0, -1 south)"""
    lo, hi = band(n)
    if sign > 0:
        return z3.And(r >= Q(lo), r <= Q(hi))
    return z3.And(r <= -Q(lo), r >= -Q(hi))


class Enc:
    """symbolic DO-260B encoding of (lat, lon) with CPR format i; zone = 360 (airborne) or 90 (surface, which is the
    airborne encoding with 19 bits of which the low 17 are transmitted). n = NL(Rlat) must be fixed by the caller
    (constraint in_band(self.rlat, n, sign))."""

    def __init__(self, lat, lon, i, n, zone, tag):
        self.cons = cons = []
        self.lat, self.lon, self.i, self.n, self.zone = lat, lon, i, n, zone
        self.dlat = Fraction(zone, 60 - i)
        zl = zfloor(lat / Q(self.dlat), "zl_" + tag, cons)
        yz = zfloor(P * (lat / Q(self.dlat) - z3.ToReal(zl)) + Q(Fraction(1, 2)), "yz_" + tag, cons)
        self.rlat = Q(self.dlat) * (z3.ToReal(yz) / P + z3.ToReal(zl))
        self.ni = max(n - i, 1)
        self.dlon = Fraction(zone, self.ni)
        zo = zfloor(lon / Q(self.dlon), "zo_" + tag, cons)
        xz = zfloor(P * (lon / Q(self.dlon) - z3.ToReal(zo)) + Q(Fraction(1, 2)), "xz_" + tag, cons)
        self.rlon = Q(self.dlon) * (z3.ToReal(xz) / P + z3.ToReal(zo))
        self.YZ = yz % P
        self.XZ = xz % P
        self.step_lat = self.dlat / P
        self.step_lon = self.dlon / P


def encode(lat, lon, i, zone=360):
    """concrete twin: (YZ, XZ, Rlat, Rlon, NL(Rlat)) for Fraction inputs"""
    lat, lon = Fraction(lat), Fraction(lon)
    dlat = Fraction(zone, 60 - i)
    zl = math.floor(lat / dlat)
    yz = math.floor(P * (lat / dlat - zl) + Fraction(1, 2))
    rlat = dlat * (Fraction(yz, P) + zl)
    n = NL(rlat)
    ni = max(n - i, 1)
    dlon = Fraction(zone, ni)
    zo = math.floor(lon / dlon)
    xz = math.floor(P * (lon / dlon - zo) + Fraction(1, 2))
    rlon = dlon * (Fraction(xz, P) + zo)
    return yz % P, xz % P, rlat, rlon, n


def circ_close(a, b, tol):
    """z3: a == b modulo 360 within tol"""
    d = a - b
    t = Q(tol)
    return z3.Or([z3.And(d + k <= t, d + k >= -t) for k in (-360, 0, 360)])


def circ_dist(a, b):
    d = abs(Fraction(a) - Fraction(b)) % 360
    return min(d, 360 - d)
