"""Oracles written from the standards (ICAO Annex 10 Vol IV, Doc 9871, DO-260B). Never import pyModeS here."""
