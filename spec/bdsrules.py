"""C12 oracle: format rules of the Comm-B registers (ICAO Doc 9871 Appendix A) as data.

SOUND[reg]   : rules whose violation means the payload is NOT that register:
               ("id", byte)                 MB bits 1-8 are the BDS code
               ("zero", first, last)        reserved bits must be zero
               ("status", sb, first, last)  status bit sb clear => magnitude bits first..last are zero
                                            (sign bits are left out on purpose: whether a set sign bit with a clear status
                                             must be refused is not stated consistently, so it is not asserted)
ENVELOPE[reg]: a sufficient condition (built in props/c12.py from these tables) under which the register must be
               reported: all status rules hold including the sign bits, reserved bits zero, payload non-zero, values
               inside the plausibility envelope of the property statement.
Bit numbers are 1-based MB bit numbers, inclusive.
"""

SOUND = {
    "BDS10": [("id", 0x10), ("zero", 10, 14)],
    "BDS17": [("zero", 25, 56)],
    "BDS20": [("id", 0x20)],
    "BDS30": [("id", 0x30)],
    "BDS40": [("status", 1, 2, 13), ("status", 14, 15, 26), ("status", 27, 28, 39), ("zero", 40, 47), ("zero", 52, 53),
              ("status", 48, 49, 51), ("status", 54, 55, 56)],
    "BDS50": [("status", 1, 3, 11), ("status", 12, 14, 23), ("status", 24, 25, 34), ("status", 35, 37, 45),
              ("status", 46, 47, 56)],
    "BDS60": [("status", 1, 3, 12), ("status", 13, 14, 23), ("status", 24, 25, 34), ("status", 35, 37, 45),
              ("status", 46, 48, 56)],
    "BDS44": [("status", 5, 6, 23), ("status", 35, 36, 46), ("status", 47, 48, 49), ("status", 50, 51, 56)],
    "BDS45": [("status", 1, 2, 3), ("status", 4, 5, 6), ("status", 7, 8, 9), ("status", 10, 11, 12), ("status", 13, 14, 15),
              ("status", 16, 18, 26), ("status", 27, 28, 38), ("status", 39, 40, 51), ("zero", 52, 56)],
}

# full fields (status bit, first bit incl. sign, last bit) used for the envelope's status consistency
FIELDS = {
    "BDS40": [(1, 2, 13), (14, 15, 26), (27, 28, 39), (48, 49, 51), (54, 55, 56)],
    "BDS50": [(1, 2, 11), (12, 13, 23), (24, 25, 34), (35, 36, 45), (46, 47, 56)],
    "BDS60": [(1, 2, 12), (13, 14, 23), (24, 25, 34), (35, 36, 45), (46, 47, 56)],
    "BDS45": [(1, 2, 3), (4, 5, 6), (7, 8, 9), (10, 11, 12), (13, 14, 15), (16, 17, 26), (27, 28, 38), (39, 40, 51)],
}

PREDICATE = {"BDS10": ("bds10", "is10"), "BDS17": ("bds17", "is17"), "BDS20": ("bds20", "is20"), "BDS30": ("bds30", "is30"),
             "BDS40": ("bds40", "is40"), "BDS44": ("bds44", "is44"), "BDS45": ("bds45", "is45"), "BDS50": ("bds50", "is50"),
             "BDS60": ("bds60", "is60")}

DF17_TC = {**{t: "BDS08" for t in range(1, 5)}, **{t: "BDS06" for t in range(5, 9)}, **{t: "BDS05" for t in range(9, 19)},
           19: "BDS09", 20: "BDS05", 21: "BDS05", 22: "BDS05", 28: "BDS61", 29: "BDS62", 31: "BDS65"}

LABELS = ["BDS10", "BDS17", "BDS20", "BDS30", "BDS40", "BDS50", "BDS60"]
LABELS_MRAR = ["BDS10", "BDS17", "BDS20", "BDS30", "BDS40", "BDS44", "BDS45", "BDS50", "BDS60"]
