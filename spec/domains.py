"""C14 oracle: for every public decoder, the downlink formats / type codes / subtypes it is documented for, and the
shape of what it returns.  Taken from the docstrings and guards' stated intent and the DO-260B / Annex 10 formats."""
import z3

ADSB = (17, 18)


def resolve(pm, path):
    obj = pm
    for p in path.split(".")[1:]:
        obj = getattr(obj, p)
    return obj


def _tc(*ranges):
    s = set()
    for r in ranges:
        if isinstance(r, int):
            s.add(r)
        else:
            s.update(range(r[0], r[1] + 1))
    return sorted(s)


# name -> spec.  df: allowed DFs (None = any); tc: allowed type codes (needs DF17/18); st: {tc: allowed subtypes}
FUNCS = {}


def reg(name, path, df=None, tc=None, **kw):
    FUNCS[name] = dict(path=path, df=df, tc=tc, **kw)


POS = _tc((5, 8), (9, 18), (20, 22))
AIR = _tc((9, 18), (20, 22))
for n, tc in [("altitude05", AIR), ("surface_velocity", _tc((5, 8))), ("callsign", _tc((1, 4))), ("category", _tc((1, 4))),
              ("airborne_velocity", [19]), ("altitude_diff", [19]), ("altitude", POS), ("velocity", _tc((5, 8), 19)),
              ("speed_heading", _tc((5, 8), 19)), ("version", [31]), ("nuc_p", POS), ("nuc_v", [19]),
              ("nic_s", [31]), ("nic_a_c", [31]), ("nic_b", AIR), ("nac_p", [29, 31]), ("nac_v", [19]),
              ("emergency_squawk", [28]), ("emergency_state", [28]), ("is_emergency", [28]),
              ("selected_altitude", [29]), ("target_altitude", [29]), ("vertical_mode", [29]), ("horizontal_mode", [29]),
              ("selected_heading", [29]), ("target_angle", [29]), ("baro_pressure_setting", [29]), ("autopilot", [29]),
              ("vnav_mode", [29]), ("altitude_hold_mode", [29]), ("approach_mode", [29]), ("lnav_mode", [29]),
              ("tcas_operational", [29]), ("tcas_ra", [29]), ("emergency_status", [29])]:
    reg("adsb." + n, "pyModeS.adsb." + n, df=ADSB, tc=tc)
reg("adsb.oe_flag", "pyModeS.adsb.oe_flag")      # documented only as "28 hexdigits string": no type-code domain
reg("adsb.df", "pyModeS.adsb.df")
reg("adsb.icao", "pyModeS.adsb.icao")
reg("adsb.typecode", "pyModeS.adsb.typecode")
reg("adsb.nic_v1", "pyModeS.adsb.nic_v1", df=ADSB, tc=POS, variants=[{"args": (0,)}, {"args": (1,)}])
reg("adsb.nic_v2", "pyModeS.adsb.nic_v2", df=ADSB, tc=POS,
    variants=[{"args": (a, b)} for a in (0, 1) for b in (0, 1, 2, 3)])
reg("adsb.sil", "pyModeS.adsb.sil", df=ADSB, tc=[29, 31], variants=[{"args": (v,)} for v in (None, 0, 1, 2)])
reg("adsb.velocity-src", "pyModeS.adsb.velocity", df=ADSB, tc=_tc((5, 8), 19), variants=[{"kwargs": {"source": True}}])
# TC28: subtype = ME bits 6-8; subtype 2 (ACAS RA broadcast) is refused
for n in ("emergency_squawk", "emergency_state", "is_emergency"):
    FUNCS["adsb." + n]["st28_not2"] = n != "emergency_squawk"
# TC29: subtype = ME bits 6-7: 0 = DO-260A (version 1) layout, 1 = DO-260B (version 2) layout, 2-3 reserved
for n in ("target_altitude", "vertical_mode", "horizontal_mode", "target_angle", "tcas_ra", "emergency_status"):
    FUNCS["adsb." + n]["st29"] = (0,)
for n in ("selected_altitude", "selected_heading", "baro_pressure_setting", "autopilot", "vnav_mode", "altitude_hold_mode",
          "approach_mode", "lnav_mode"):
    FUNCS["adsb." + n]["st29"] = (1,)
FUNCS["adsb.tcas_operational"]["st29"] = (0, 1)

# pair / reference functions
reg("adsb.position", "pyModeS.adsb.position", pair=True, pairdom="position", variants=[{"args": (3, 7)}, {"args": (7, 3)}, {"args": (3, 7, 52.0, 4.0)}])
reg("adsb.airborne_position", "pyModeS.adsb.airborne_position", pair=True, variants=[{"args": (3, 7)}, {"args": (7, 3)}])
reg("adsb.surface_position", "pyModeS.adsb.surface_position", pair=True, variants=[{"args": (3, 7, -43.5, 172.5)}, {"args": (7, 3, 2.0, -179.5)}])
reg("adsb.position_with_ref", "pyModeS.adsb.position_with_ref", df=ADSB, tc=POS, variants=[{"args": (49.0, 6.0)}, {"args": (-89.5, 179.9)}])
reg("adsb.airborne_position_with_ref", "pyModeS.adsb.airborne_position_with_ref", variants=[{"args": (49.0, 6.0)}])
reg("adsb.surface_position_with_ref", "pyModeS.adsb.surface_position_with_ref", variants=[{"args": (-43.5, 172.5)}])

COMMB = ["is10", "ovc10", "is17", "cap17", "is20", "cs20", "is30", "is40", "selalt40fms", "selalt40mcp", "p40baro", "alt40fms",
         "alt40mcp", "is50", "roll50", "trk50", "gs50", "rtrk50", "tas50", "is60", "hdg60", "ias60", "mach60", "vr60baro",
         "vr60ins", "is44", "wind44", "temp44", "p44", "hum44", "turb44", "is45", "turb45", "ws45", "mb45", "ic45", "wv45",
         "temp45", "p45", "rh45"]
for n in COMMB:
    reg("commb." + n, "pyModeS.commb." + n)        # no downlink format is documented for the Comm-B field decoders
FUNCS["commb.cap17"]["maxpaths"] = 100000

for n in ("fs", "dr", "um"):
    reg("surv." + n, "pyModeS.surv." + n, df=(4, 5, 20, 21))
reg("surv.altitude", "pyModeS.surv.altitude", df=(4, 20))
reg("surv.identity", "pyModeS.surv.identity", df=(5, 21))
for n in ("icao", "interrogator", "capability"):
    reg("allcall." + n, "pyModeS.allcall." + n, df=(11,))
for n in ("df", "icao", "typecode", "data", "allzeros", "fs", "dr", "um"):
    reg("common." + n, "pyModeS.common." + n)
reg("common.crc", "pyModeS.common.crc", variants=[{}, {"kwargs": {"encode": True}}])
reg("common.altcode", "pyModeS.common.altcode", df=(0, 4, 16, 20))
reg("common.idcode", "pyModeS.common.idcode", df=(5, 21))
reg("bds.infer", "pyModeS.bds.infer", variants=[{}, {"kwargs": {"mrar": True}}])
reg("tell", "pyModeS.tell", maxpaths=200000)


def _tcbits(fr):
    return fr["ME"].bits[:5]


def domain_term(spec, fr, ln):
    """z3 Bool: the frame is inside the function's documented domain"""
    from symx import core
    cs = []
    df = fr["DF"].int()
    if spec.get("df") is not None:
        cs.append(z3.Or([df == d for d in spec["df"]]))
    if spec.get("tc") is not None:
        if ln != 28:
            return z3.BoolVal(False)
        tc = core.bits_to_int(_tcbits(fr))
        cs.append(z3.Or([tc == t for t in spec["tc"]]))
    if spec.get("st29") is not None and ln == 28:
        st = core.bits_to_int(fr["ME"].bits[5:7])
        cs.append(z3.Or([st == x for x in spec["st29"]]))
    if spec.get("st28_not2") and ln == 28:
        st = core.bits_to_int(fr["ME"].bits[5:8])
        cs.append(st != 2)
    return z3.And(cs) if cs else z3.BoolVal(True)


def _cls_term(fr):
    from symx import core
    df = fr["DF"].int()
    tc = core.bits_to_int(fr["ME"].bits[:5])
    adsb = z3.Or(df == 17, df == 18)
    return adsb, tc


def pair_domain_term(spec, fr, fr2, ln, nargs):
    """position(msg0, msg1, ...): a value only for two DF17/18 frames of the same position class (two TC 5-8 frames need
    the reference position as well)"""
    if spec.get("pairdom") != "position":
        return z3.BoolVal(True)
    if ln != 28:
        return z3.BoolVal(False)
    a0, t0 = _cls_term(fr)
    a1, t1 = _cls_term(fr2)
    both = lambda lo, hi: z3.And(t0 >= lo, t0 <= hi, t1 >= lo, t1 <= hi)
    cls = z3.Or(both(9, 18), both(20, 22)) if nargs < 4 else z3.Or(both(5, 8), both(9, 18), both(20, 22))
    return z3.And(a0, a1, cls)


def pair_in_domain_concrete(spec, msg, msg2, nargs):
    if spec.get("pairdom") != "position":
        return True
    if len(msg) != 28 or len(msg2) != 28:
        return False

    def cls(m):
        n = int(m, 16)
        if (n >> 107) not in (17, 18):
            return None
        tc = (n >> 75) & 31
        return "s" if 5 <= tc <= 8 else "b" if 9 <= tc <= 18 else "g" if 20 <= tc <= 22 else None
    c0, c1 = cls(msg), cls(msg2)
    if c0 is None or c0 != c1:
        return False
    return c0 != "s" or nargs >= 4


def in_domain_concrete(spec, msg):
    n = int(msg, 16)
    nb = len(msg) * 4
    df = n >> (nb - 5)
    if spec.get("df") is not None and df not in spec["df"]:
        return False
    if spec.get("tc") is not None:
        if len(msg) != 28:
            return False
        me = (n >> 24) & ((1 << 56) - 1)
        tc = me >> 51
        if tc not in spec["tc"]:
            return False
        if spec.get("st29") is not None and ((me >> 49) & 3) not in spec["st29"]:
            return False
        if spec.get("st28_not2") and ((me >> 48) & 7) == 2:
            return False
    return True


SHAPES = {
    "adsb.altitude05": "num?", "adsb.surface_velocity": "tuple:4", "adsb.callsign": "str", "adsb.category": "int",
    "adsb.airborne_velocity": "tuple?:4", "adsb.altitude_diff": "num?", "adsb.altitude": "num?",
    "adsb.velocity": "tuple?:4", "adsb.velocity-src": "tuple?:6", "adsb.speed_heading": "tuple?:2",
    "adsb.oe_flag": "int", "adsb.version": "int", "adsb.nuc_p": "tuple:4", "adsb.nuc_v": "tuple:3",
    "adsb.nic_v1": "tuple:3", "adsb.nic_v2": "tuple:2", "adsb.nic_s": "int", "adsb.nic_a_c": "tuple:2",
    "adsb.nic_b": "int", "adsb.nac_p": "tuple:3", "adsb.nac_v": "tuple:3", "adsb.sil": "tuple:3",
    "adsb.emergency_squawk": "str", "adsb.emergency_state": "int", "adsb.is_emergency": "bool",
    "adsb.selected_altitude": "tuple:2", "adsb.target_altitude": "tuple:3", "adsb.vertical_mode": "int?",
    "adsb.horizontal_mode": "int?", "adsb.selected_heading": "num?", "adsb.target_angle": "tuple:3",
    "adsb.baro_pressure_setting": "num?", "adsb.autopilot": "bool?", "adsb.vnav_mode": "bool?",
    "adsb.altitude_hold_mode": "bool?", "adsb.approach_mode": "bool?", "adsb.lnav_mode": "bool?",
    "adsb.tcas_operational": "bool?", "adsb.tcas_ra": "bool", "adsb.emergency_status": "int",
    "adsb.df": "int", "adsb.icao": "str?", "adsb.typecode": "int?",
    "adsb.position": "tuple?:2", "adsb.airborne_position": "tuple?:2", "adsb.surface_position": "tuple?:2",
    "adsb.position_with_ref": "tuple:2", "adsb.airborne_position_with_ref": "tuple:2",
    "adsb.surface_position_with_ref": "tuple:2",
    "commb.cap17": "list", "commb.cs20": "str", "commb.ovc10": "int", "commb.wind44": "tuple:2", "commb.temp44": "tuple:2",
    "surv.fs": "tuple:2", "surv.dr": "tuple:2", "surv.um": "tuple:3", "surv.altitude": "num?", "surv.identity": "str",
    "allcall.icao": "str?", "allcall.interrogator": "str", "allcall.capability": "tuple:2",
    "common.df": "int", "common.icao": "str?", "common.typecode": "int?", "common.data": "str", "common.allzeros": "bool",
    "common.crc": "int", "common.altcode": "num?", "common.idcode": "str", "bds.infer": "str?", "tell": "none",
}
for _n in COMMB:
    if _n.startswith("is"):
        SHAPES["commb." + _n] = "bool"
    elif "commb." + _n not in SHAPES:
        SHAPES["commb." + _n] = "num?"


def _kind(v):
    n = type(v).__name__
    if v is None:
        return "none"
    if n in ("SymBool",) or isinstance(v, bool):
        return "bool"
    if n == "SymInt" or isinstance(v, int):
        return "int"
    if n in ("SymReal", "SymFP") or isinstance(v, float):
        return "float"
    if n in ("SymStr", "OpaqueStr") or isinstance(v, str):
        return "str"
    if isinstance(v, tuple):
        return "tuple"
    if isinstance(v, list):
        return "list"
    return n


def shape_ok(spec, v, name=None):
    """documented result shape (python bool; never symbolic)"""
    sh = SHAPES.get(name)
    if sh is None:
        return True
    k = _kind(v)
    if sh.endswith("?") and k == "none":
        return True
    if ":" in sh:
        base, n = sh.split(":")
        if base.endswith("?") and k == "none":
            return True
        return k in ("tuple", "list") and len(v) == int(n)
    base = sh.rstrip("?")
    if base == "num":
        return k in ("int", "float")
    if base == "bool":
        return k in ("bool", "int")
    return k == base


def cmp_loose(a, b):
    """shape comparison for path validation: None-ness, lengths, strings and booleans must agree; numbers only in kind"""
    if a is None or b is None:
        return a is None and b is None
    if isinstance(a, bool) or isinstance(b, bool):
        return a == b
    if isinstance(a, (int, float)) and isinstance(b, (int, float)):
        return True
    if isinstance(a, str) or isinstance(b, str):
        return type(a).__name__ == "OpaqueStr" or type(b).__name__ == "OpaqueStr" or a == b
    if isinstance(a, (tuple, list)) and isinstance(b, (tuple, list)):
        return len(a) == len(b) and all(cmp_loose(x, y) for x, y in zip(a, b))
    if isinstance(a, dict) and isinstance(b, dict):
        return a.keys() == b.keys()
    return type(a).__name__ == "OpaqueStr" or a == b
