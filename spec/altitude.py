"""Annex 10 Vol IV 3.1.2.6.5.4: 13-bit altitude code AC = C1 A1 C2 A2 C4 A4 M B1 Q B2 D2 B4 D4.
Written as z3 terms over 13 z3 Bool 'bit is 1' terms; a concrete twin works on a Python int."""
import z3

# 100-ft sub-code C1 C2 C4 (Gillham): value 1..5, other patterns illegal
C_TABLE = {(0, 0, 1): 1, (0, 1, 1): 2, (0, 1, 0): 3, (1, 1, 0): 4, (1, 0, 0): 5}
M_TO_FT_NUM, M_TO_FT_DEN = 328084, 100000   # 1 m = 3.28084 ft


def _int(bits):
    """MSB-first list of z3 Bool -> z3 Int"""
    n = len(bits)
    return z3.Sum([z3.If(b, 1 << (n - 1 - i), 0) for i, b in enumerate(bits)])


def altitude_spec(b):
    """b: 13 z3 Bools (AC bit order). Returns (is_none: z3 Bool, feet: z3 Int)."""
    C1, A1, C2, A2, C4, A4, M, B1, Q, B2, D2, B4, D4 = b
    allzero = z3.Not(z3.Or(b))
    # Q = 1: 25-ft increments, N = the 11 bits without M and Q
    n25 = _int([C1, A1, C2, A2, C4, A4, B1, B2, D2, B4, D4])
    ft25 = 25 * n25 - 1000
    # Q = 0: Gillham; D2 D4 A1 A2 A4 B1 B2 B4 is a Gray code counting 500-ft steps (D1 is not transmitted)
    g = [D2, D4, A1, A2, A4, B1, B2, B4]
    binb = []
    acc = z3.BoolVal(False)
    for x in g:
        acc = z3.Xor(acc, x)
        binb.append(acc)
    n500 = _int(binb)
    odd = binb[-1]
    n100 = z3.IntVal(0)
    legal = z3.BoolVal(False)
    for (c1, c2, c4), v in C_TABLE.items():
        hit = z3.And(C1 == bool(c1), C2 == bool(c2), C4 == bool(c4))
        n100 = z3.If(hit, v, n100)
        legal = z3.Or(legal, hit)
    n100r = z3.If(odd, 6 - n100, n100)
    ftg = 500 * n500 + 100 * n100r - 1300
    # M = 1: metric, N = the 12 bits without M, in metres
    nm = _int([C1, A1, C2, A2, C4, A4, B1, Q, B2, D2, B4, D4])
    ftm = (nm * M_TO_FT_NUM) / M_TO_FT_DEN   # Int division: floor for non-negative
    is_none = z3.Or(allzero, z3.And(z3.Not(M), z3.Not(Q), z3.Not(legal)))
    feet = z3.If(M, ftm, z3.If(Q, ft25, ftg))
    return is_none, feet


def altitude_py(code):
    """concrete twin: 13-bit int -> feet or None"""
    b = [(code >> (12 - i)) & 1 for i in range(13)]
    C1, A1, C2, A2, C4, A4, M, B1, Q, B2, D2, B4, D4 = b
    if code == 0:
        return None
    if M:
        n = 0
        for x in [C1, A1, C2, A2, C4, A4, B1, Q, B2, D2, B4, D4]:
            n = 2 * n + x
        return n * M_TO_FT_NUM // M_TO_FT_DEN
    if Q:
        n = 0
        for x in [C1, A1, C2, A2, C4, A4, B1, B2, D2, B4, D4]:
            n = 2 * n + x
        return 25 * n - 1000
    acc, n500 = 0, 0
    for x in [D2, D4, A1, A2, A4, B1, B2, B4]:
        acc ^= x
        n500 = 2 * n500 + acc
    n100 = C_TABLE.get((C1, C2, C4))
    if n100 is None:
        return None
    if n500 & 1:
        n100 = 6 - n100
    return 500 * n500 + 100 * n100 - 1300
