"""Mode S parity: remainder of the frame polynomial modulo G(x) = 0x1FFF409 (Annex 10 Vol IV 3.1.2.3.3).
Bit-serial LFSR formulation, independent of the byte-wise table division used by pyModeS."""
from symx.core import Bit, bxor, ZERO1

GEN = 0x1FFF409  # x^24 + x^23 + ... + x^10 + x^3 + 1 (25 bits)


def rem_bits(bits):
    """bits: MSB-first list of Bit (whole frame incl. the 24 parity bits) -> 24 remainder Bits.
    Straight polynomial long division, one bit at a time."""
    cur = list(bits)
    n = len(cur)
    for i in range(n - 24):
        b = cur[i]
        if not b.atoms and not b.c:
            continue
        for k in range(25):
            if (GEN >> (24 - k)) & 1:
                cur[i + k] = bxor(cur[i + k], b)
    return cur[-24:]


def rem_int(value, nbits):
    """concrete twin: remainder of an nbits-bit integer"""
    for i in range(nbits - 24):
        if (value >> (nbits - 1 - i)) & 1:
            value ^= GEN << (nbits - 25 - i)
    return value & 0xFFFFFF


def parity_of_data_bits(bits):
    """parity field a transponder transmits for data bits (frame with zeroed PI): remainder of data * x^24"""
    return rem_bits(list(bits) + [ZERO1] * 24)
