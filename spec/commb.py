"""ICAO Doc 9871 (2nd ed.) Appendix A register layouts for BDS 1,0 1,7 4,0 4,4 4,5 5,0 5,3 6,0.
One row per field: MB bit numbers are 1-based as in the register tables.
kind: 'u' unsigned, 's' two's complement (sign bit immediately before the magnitude field)."""
from fractions import Fraction as F

# name: (module, status bit | None, sign bit | None, first, last, LSB, offset, wrap360)
FIELDS = {
    "selalt40mcp": ("bds40", 1, None, 2, 13, F(16), 0, False),
    "selalt40fms": ("bds40", 14, None, 15, 26, F(16), 0, False),
    "p40baro": ("bds40", 27, None, 28, 39, F(1, 10), 800, False),
    "roll50": ("bds50", 1, 2, 3, 11, F(45, 256), 0, False),
    "trk50": ("bds50", 12, 13, 14, 23, F(90, 512), 0, True),
    "gs50": ("bds50", 24, None, 25, 34, F(2), 0, False),
    "rtrk50": ("bds50", 35, 36, 37, 45, F(8, 256), 0, False),
    "tas50": ("bds50", 46, None, 47, 56, F(2), 0, False),
    "hdg60": ("bds60", 1, 2, 3, 12, F(90, 512), 0, True),
    "ias60": ("bds60", 13, None, 14, 23, F(1), 0, False),
    "mach60": ("bds60", 24, None, 25, 34, F(2048, 512000), 0, False),
    "vr60baro": ("bds60", 35, 36, 37, 45, F(32), 0, False),
    "vr60ins": ("bds60", 46, 47, 48, 56, F(32), 0, False),
    "p44": ("bds44", 35, None, 36, 46, F(1), 0, False),
    "hum44": ("bds44", 50, None, 51, 56, F(100, 64), 0, False),
    "turb44": ("bds44", 47, None, 48, 49, F(1), 0, False),
    "turb45": ("bds45", 1, None, 2, 3, F(1), 0, False),
    "ws45": ("bds45", 4, None, 5, 6, F(1), 0, False),
    "mb45": ("bds45", 7, None, 8, 9, F(1), 0, False),
    "ic45": ("bds45", 10, None, 11, 12, F(1), 0, False),
    "wv45": ("bds45", 13, None, 14, 15, F(1), 0, False),
    "temp45": ("bds45", None, 17, 18, 26, F(1, 4), 0, False),      # reported unconditionally
    "p45": ("bds45", 27, None, 28, 38, F(1), 0, False),
    "rh45": ("bds45", 39, None, 40, 51, F(16), 0, False),
    "hdg53": ("bds53", 1, 2, 3, 12, F(90, 512), 0, True),
    "ias53": ("bds53", 13, None, 14, 23, F(1), 0, False),
    "mach53": ("bds53", 24, None, 25, 33, F(8, 1000), 0, False),
    "tas53": ("bds53", 34, None, 35, 46, F(1, 2), 0, False),
    "vr53": ("bds53", 47, 48, 49, 56, F(64), 0, False),
}
ALIASES = {"alt40mcp": "selalt40mcp", "alt40fms": "selalt40fms"}

# BDS 1,7 bit i (1..24) -> register
CAP17 = ["05", "06", "07", "08", "09", "0A", "20", "21", "40", "41", "42", "43", "44", "45", "48", "50", "51", "52",
         "53", "54", "55", "56", "5F", "60"]

# exported names of pyModeS.commb -> defining module
EXPORTS = {
    "bds10": ["is10", "ovc10"], "bds17": ["is17", "cap17"], "bds20": ["is20", "cs20"], "bds30": ["is30"],
    "bds40": ["is40", "selalt40fms", "selalt40mcp", "p40baro", "alt40fms", "alt40mcp"],
    "bds50": ["is50", "roll50", "trk50", "gs50", "rtrk50", "tas50"],
    "bds60": ["is60", "hdg60", "ias60", "mach60", "vr60baro", "vr60ins"],
    "bds44": ["is44", "wind44", "temp44", "p44", "hum44", "turb44"],
    "bds45": ["is45", "turb45", "ws45", "mb45", "ic45", "wv45", "temp45", "p45", "rh45"],
}


def mb_of(msg):
    return bin(int(msg, 16))[2:].zfill(112)[32:88]


def expected(name, msg):
    """concrete twin: expected value (Fraction or None) of field decoder `name` on frame msg"""
    mod, st, sg, a, b, lsb, off, wrap = FIELDS[ALIASES.get(name, name)]
    mb = mb_of(msg)
    if st is not None and mb[st - 1] == "0":
        return None
    v = int(mb[a - 1:b], 2)
    if sg is not None and mb[sg - 1] == "1":
        v -= 1 << (b - a + 1)
    r = v * lsb + off
    if wrap and r < 0:
        r += 360
    return r
