#!/bin/bash
# tools/seedrun.sh <seeded-dir-or-patch> <check id> [extra ./check args]: run a check against a scratch worktree with the patch applied
P="$1"; [ -d "$P" ] && P="$P/patch.diff"; ID="$2"; shift 2
WT=$(mktemp -d /tmp/seedrun.XXXXXX); rmdir "$WT"
git -C /repo worktree add --detach "$WT" HEAD >/dev/null 2>&1 || exit 3
( cd "$WT" && git apply "$P" ) || { git -C /repo worktree remove --force "$WT"; exit 3; }
SYMX_REPO_SRC="$WT/src" /verif/check "$ID" --tier quick --no-evidence "$@"; RC=$?
git -C /repo worktree remove --force "$WT"; rm -rf "$WT"
exit $RC
