#!/usr/bin/env python3
"""print the sub-agent prompt for one property id (text of the property only, nothing from /verif's machinery)"""
import json, sys
pid = sys.argv[1]
rnd = sys.argv[2] if len(sys.argv) > 2 else ""
wt = "/tmp/seedwork/wt-%s%s" % (pid, rnd)
out = "/tmp/seedwork/out-%s%s" % (pid, rnd)
p = next(json.loads(l) for l in open("/verif/properties.jsonl") if json.loads(l)["id"] == pid)
txt = json.dumps({k: p[k] for k in ("id", "title", "statement", "quantifier", "why_tests_cant", "anchors")}, indent=1)
print(f"""You are helping to evaluate a verification setup for the Python library junzis/pyModeS (a Mode-S / ADS-B decoder).
Your job: produce TWO different, realistic source changes ("seeded bugs") to the library, each of which BREAKS the semantic property below while the code still imports/compiles and the existing test suite still passes.

Working copy: a scratch git worktree of the repository at {wt} (work ONLY there; never touch /repo or anything under /verif, and do not read /verif). Source is under {wt}/src/pyModeS.
Run the existing tests with exactly:
  cd {wt} && PYTHONPATH={wt}/src /venv/bin/python -m pytest -q -p no:cacheprovider
(PYTHONPATH is required so that the worktree's source is imported rather than the installed one; check with
  PYTHONPATH={wt}/src /venv/bin/python -c "import pyModeS; print(pyModeS.__file__)").
There is no network. Do not install anything. Cython is not available, so do not rely on compiling c_common.pyx; the library runs on py_common.

The property (JSON, verbatim):
{txt}

Requirements for each of the two changes:
- It is a small, plausible edit a developer might make (an off-by-one, a wrong comparison, a swapped operand, a dropped guard, a wrong constant in one branch, a refactoring slip, two cooperating edits that each look fine alone, ...), NOT a gross break.
- It must need something specific to manifest: an unusual input, a particular band/range/bit pattern/boundary value, a particular sequence or interleaving of operations - NOT something ordinary use or the existing tests expose at once. The full existing test suite must still pass with the change applied (36 tests).
- It must genuinely violate the property as stated (be careful to read the statement; if the statement tolerates something, that is not a violation).
- The two changes should be in different mechanisms/locations if possible.
""" + ("""- This is a SECOND round: avoid the most obvious single-line slips in the first function the property names; prefer less central mechanisms listed under "anchors" (secondary entry points, dispatchers, rarely taken branches, state carried between calls, boundary values of ranges, interactions between two functions) and subtler triggers.
""" if rnd else "") + ("""- This is a THIRD round: both changes must need either a multi-step sequence of calls / messages (state carried from one call to the next), or two cooperating edits in different functions that each look harmless alone, or an input that lies on a boundary between two rules (e.g. exactly at a threshold, exactly one reserved bit, the last legal value of a range). Do not use `git stash`.
""" if rnd == "r3" else "") + f"""
Deliverables, written under {out}/a/ and {out}/b/ (create the directories):
- patch.diff : `git diff` of the change relative to the worktree's HEAD (apply-able with `git apply` from the repository root).
- demo.py : a small standalone program, run as `PYTHONPATH=<root>/src /venv/bin/python demo.py`, that exits 0 and prints OK on the UNCHANGED code and exits 1 (printing what went wrong) with the change applied. It should check the property on the specific input(s)/sequence that expose the change, against an expectation you derive independently of the library (e.g. from the standard's definition), not against the library's own previous output where avoidable.
- notes.md : 5-10 lines: what was changed, which part of the property it breaks, what is needed for it to manifest, and the output of the test suite and of demo.py with and without the change.
Verify all of this yourself: tests pass with each change; demo fails with the change and passes without it. When you are done, leave the worktree clean (git checkout -- . ; no commits). Reply with a short summary of the two changes.""")
