#!/usr/bin/env python3
"""tools/seedcheck.py <PID> <variant> [extra check ids...]
Confirm a seeded change produced by a sub-agent (under /tmp/seedwork/out-<PID>/<variant>/) in a fresh scratch worktree:
 demo passes on the unchanged tree, the patch applies, the 36 tests still pass, the demo fails with the change;
then run our check(s) against the changed source and record everything under /verif/seeded/<PID>-<variant>/."""
import json
import os
import shutil
import subprocess
import sys
import time

VERIF = os.path.dirname(os.path.dirname(os.path.abspath(__file__)))


def sh(cmd, **kw):
    return subprocess.run(cmd, shell=True, capture_output=True, text=True, **kw)


def main():
    pidfull, var = sys.argv[1], sys.argv[2]          # e.g. C03 a   or   C03r2 a  (second round)
    pid, rnd = pidfull[:3], pidfull[3:]
    checks = [pid] + sys.argv[3:]
    src = "/tmp/seedwork/out-%s/%s" % (pidfull, var)
    wt = "/tmp/seedwork/chk-%s-%s" % (pidfull, var)
    var = rnd + var
    sh("git -C /repo worktree remove --force %s" % wt)
    r = sh("git -C /repo worktree add --detach %s HEAD" % wt)
    assert r.returncode == 0, r.stderr
    env = dict(os.environ, PYTHONPATH=wt + "/src")
    meta = {"property": pid, "variant": var, "repo_head": sh("git -C /repo rev-parse --short HEAD").stdout.strip()}
    try:
        d0 = sh("/venv/bin/python %s/demo.py" % src, env=env, cwd=wt)
        meta["demo_unchanged_exit"] = d0.returncode
        a = sh("git apply %s/patch.diff" % src, cwd=wt)
        if a.returncode != 0:
            a = sh("git apply -3 %s/patch.diff" % src, cwd=wt)
        if a.returncode != 0:
            a = sh("patch -p1 --fuzz=3 < %s/patch.diff" % src, cwd=wt)
        meta["patch_applies"] = a.returncode == 0
        if a.returncode != 0:
            meta["patch_error"] = (a.stderr + a.stdout)[-400:]
        else:
            t = sh("/venv/bin/python -m pytest -q -p no:cacheprovider 2>&1 | tail -1", env=env, cwd=wt)
            meta["tests_with_change"] = t.stdout.strip()
            d1 = sh("/venv/bin/python %s/demo.py" % src, env=env, cwd=wt)
            meta["demo_changed_exit"] = d1.returncode
            meta["demo_changed_tail"] = (d1.stdout + d1.stderr).strip().splitlines()[-3:]
            diff = sh("git diff", cwd=wt).stdout
            meta["checks"] = {}
            for c in checks:
                t0 = time.time()
                e2 = dict(os.environ, SYMX_REPO_SRC=wt + "/src")
                cr = sh("%s/check %s --tier quick --no-evidence" % (VERIF, c), env=e2)
                lines = (cr.stdout + cr.stderr).strip().splitlines()
                meta["checks"][c] = {"exit": cr.returncode, "wall_s": round(time.time() - t0, 1),
                                     "tail": [l[:300] for l in lines if l.startswith(("VIOLATION", c + " ", "  counterexample", "INCONCLUSIVE"))][:4]}
            out = os.path.join(VERIF, "seeded", "%s-%s" % (pid, var))
            ok = meta["demo_unchanged_exit"] == 0 and "36 passed" in meta["tests_with_change"] and meta["demo_changed_exit"] != 0
            meta["confirmed"] = ok
            if ok:
                os.makedirs(out, exist_ok=True)
                open(os.path.join(out, "patch.diff"), "w").write(diff)
                shutil.copy(os.path.join(src, "demo.py"), os.path.join(out, "demo.py"))
                if os.path.exists(os.path.join(src, "notes.md")):
                    shutil.copy(os.path.join(src, "notes.md"), os.path.join(out, "notes.md"))
                m2 = {"property": pid, "breaks": None, "needs_to_manifest": None,
                      "confirmed_by": "tools/seedcheck.py in a scratch worktree of /repo at %s: demo exit 0 unchanged, "
                                      "tests '%s' with the change, demo exit %d with the change"
                                      % (meta["repo_head"], meta["tests_with_change"], meta["demo_changed_exit"]),
                      "checks_run": meta["checks"]}
                json.dump(m2, open(os.path.join(out, "meta.json"), "w"), indent=1)
    finally:
        sh("git -C /repo worktree remove --force %s" % wt)
        shutil.rmtree(wt, ignore_errors=True)
    print(json.dumps(meta, indent=1))


if __name__ == "__main__":
    main()
