#!/usr/bin/env python3
"""tools/mutant.py <relative file under src/pyModeS> <old text> <new text> <check id> [check args...]
Copy /repo/src to a scratch dir, apply one textual change, run ./check against the copy (no evidence written), clean up.
Prints the check's last lines and exit status. Used while developing checks and by selftest."""
import os
import shutil
import subprocess
import sys
import tempfile

VERIF = os.path.dirname(os.path.dirname(os.path.abspath(__file__)))


def run(rel, old, new, pid, extra=(), count=1, quiet=False):
    tmp = tempfile.mkdtemp(prefix="symx-mut-")
    try:
        shutil.copytree("/repo/src", os.path.join(tmp, "src"), ignore=shutil.ignore_patterns("__pycache__", "*.so", "*.c"))
        f = os.path.join(tmp, "src", "pyModeS", rel)
        s = open(f).read()
        if s.count(old) < 1:
            print("mutant: pattern not found in %s" % rel)
            return 3
        s = s.replace(old, new, count)
        open(f, "w").write(s)
        env = dict(os.environ)
        env["SYMX_REPO_SRC"] = os.path.join(tmp, "src")
        p = subprocess.run([os.path.join(VERIF, "check"), pid, "--no-evidence"] + list(extra), env=env,
                           capture_output=True, text=True)
        if not quiet:
            lines = (p.stdout + p.stderr).strip().splitlines()
            print("\n".join(l[:400] for l in lines[-8:]))
        print("mutant exit=%d" % p.returncode)
        return p.returncode
    finally:
        shutil.rmtree(tmp, ignore_errors=True)


if __name__ == "__main__":
    rel, old, new, pid = sys.argv[1:5]
    sys.exit(run(rel, old.encode().decode("unicode_escape"), new.encode().decode("unicode_escape"), pid, sys.argv[5:]))
