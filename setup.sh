#!/bin/sh
# Build /verif/.venv offline: python from /venv, z3-solver + cvc5 from the local wheelhouse.
set -e
cd "$(dirname "$0")"
if [ -x .venv/bin/python ] && .venv/bin/python -c "import z3, numpy" 2>/dev/null; then
    exit 0
fi
rm -rf .venv
/venv/bin/python -m venv .venv
SP=$(.venv/bin/python -c "import sysconfig; print(sysconfig.get_paths()['purelib'])")
echo "import site; site.addsitedir('/venv/lib/python3.12/site-packages')" > "$SP/_overlay.pth"
PIP_NO_INDEX=1 .venv/bin/python -m pip install -q --no-index --find-links /opt/veriftools/wheels z3-solver cvc5 >/dev/null
.venv/bin/python -c "import z3, numpy; print('verif venv ready: z3', z3.get_version_string())"
