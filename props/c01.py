"""C01 - Mode S CRC-24: exact remainder, parity closure, error detection (DESIGN.md section 5 C01)."""
import z3

from spec import crc as S
from symx import core, harness as H
from symx.core import Bit, SymInt, ZERO1, ONE1, bxor, HexChar, mkstr
from symx.loader import load_repo

META = {
    "bounds": ["frame lengths exactly 56 and 112 bits (14/28 hex digits), every bit symbolic, every hex letter case",
               "error patterns: every weight 1..5 (odd weights via the parity identity, weights 2 and 4 via symbolic "
               "column indices into the syndrome table read off the implementation), every burst of <= 24 bits at "
               "every offset"],
    "outside": ["the Cython crc (see C15)",
                "weight-4 at 112 bits is thorough-tier only"],
    "stubs": [],
    "assumptions": ["z3 decides GF(2)-affine equalities over the implementation's bit terms; the GF(2) normal form "
                    "used by the engine is itself re-checked by z3 (miter against the LFSR oracle)"],
}

LENS = {56: 14, 112: 28}


def items(tier, seed):
    out = []
    for n in (56, 112):
        out.append(("remainder-%d" % n, {"n": n}))
        out.append(("legacy-%d" % n, {"n": n}))
        out.append(("sequence-%d" % n, {"n": n}))
        out.append(("encode-%d" % n, {"n": n}))
        out.append(("linear-%d" % n, {"n": n}))
        out.append(("parity-odd-%d" % n, {"n": n}))
        for k in (1, 2, 3):
            out.append(("weight%d-%d" % (k, n), {"n": n}))
        for lo in range(0, n - 23, 8):
            out.append(("burst-%d-%03d" % (n, lo), {"n": n, "lo": lo, "hi": min(lo + 8, n - 23)}))
    out.append(("weight4-56", {"n": 56}))
    if tier == "thorough":
        out.append(("weight4-112", {"n": 112}))
        out.append(("weight5-56", {"n": 56}))
        out.append(("weight5-112", {"n": 112}))
    out.append(("checkmsg", {}))
    return out


def frame(n, prefix="f", case="mixed"):
    return H.Frame([("bits", n)], prefix=prefix, case=case)


def pad24(si):
    b = SymInt.lift(si).getbits()
    return [ZERO1] * (24 - len(b)) + list(b)


def bits_differ(a, b):
    cs = []
    for x, y in zip(a, b):
        d = bxor(x, y)
        if not d.atoms:
            if d.c:
                return z3.BoolVal(True)
            continue
        cs.append(d.true())
    return z3.Or(cs) if cs else z3.BoolVal(False)


def syndrome_table(pm, n):
    """Run the real crc on n symbolic bits and read the column of every input bit off the affine form."""
    fr = frame(n, prefix="t%d" % n, case="upper")
    ps = core.explore(lambda: pm.common.crc(fr.msg))
    if len(ps) != 1:
        raise H.HarnessError("crc() forks on a fully symbolic frame (%d paths): the syndrome table cannot be read off" % len(ps))
    (p,) = ps
    res = pad24(p.value)
    idx = {next(iter(b.atoms)): i for i, b in enumerate(fr.bits)}
    T = [0] * n
    for j, b in enumerate(res):
        assert b.c == 0
        for a in b.atoms:
            T[idx[a]] |= 1 << (23 - j)
    return fr, res, T


def run_item(item):
    item.cross_check = True      # thorough tier: discharged obligations are re-decided by cvc5
    pm = load_repo()
    name, prm = item.name, item.params
    item.encoded("pyModeS.py_common.crc", "pyModeS.py_common.hex2bin", "pyModeS.py_common.bin2int")
    kind = name.split("-")[0]
    n = prm.get("n")

    if kind == "remainder":
        fr = frame(n)
        item.declare(fr)
        spec = core.bits_to_int(S.rem_bits(fr.bits))
        H.decide(item, "crc==remainder", lambda: pm.common.crc(fr.msg),
                 lambda c: H.real_call("pyModeS.common.crc", c["msg"]),
                 lambda m: {"msg": fr.concrete(m)},
                 lambda k, v: k == "ret" and H.int_eq(v, spec))
        # independent of hex letter case is part of the above (mixed-case frame, single spec)
        # vacuity twin: a frame with non-zero remainder exists
        item.sat_witness("nonzero-remainder", [spec != 0])

    elif kind == "sequence":
        # crc is a function of its arguments only: the same frame checked, encoded and checked again in one run gives
        # remainder, parity, remainder (no state carried from one call to the next)
        fr = frame(n)
        item.declare(fr)
        spec = core.bits_to_int(S.rem_bits(fr.bits))
        spec_par = core.bits_to_int(S.parity_of_data_bits(fr.bits[:n - 24]))

        def seq():
            return (pm.common.crc(fr.msg), pm.common.crc(fr.msg, True), pm.common.crc(fr.msg), pm.common.crc(fr.msg, encode=True))
        H.decide(item, "crc call sequence", seq, lambda c: H.real_driver("crc_sequence", c["msg"]),
                 lambda m: {"msg": fr.concrete(m)},
                 lambda k, v: k == "ret" and isinstance(v, (tuple, list)) and len(v) == 4 and
                 H.zand(H.int_eq(v[0], spec), H.int_eq(v[1], spec_par), H.int_eq(v[2], spec), H.int_eq(v[3], spec_par)))

    elif kind == "legacy":
        # the bit-serial reference implementation kept alongside computes the same remainder / parity
        item.encoded("pyModeS.py_common.crc_legacy")
        fr = frame(n)
        item.declare(fr)
        spec = core.bits_to_int(S.rem_bits(fr.bits))
        spec_par = core.bits_to_int(S.parity_of_data_bits(fr.bits[:n - 24]))
        for enc, want in ((False, spec), (True, spec_par)):
            H.decide(item, "crc_legacy(encode=%s)" % enc, lambda: pm.common.crc_legacy(fr.msg, enc),
                     lambda c: H.real_call("pyModeS.common.crc_legacy", c["msg"], enc),
                     lambda m: {"msg": fr.concrete(m)},
                     lambda k, v: k == "ret" and H.int_eq(v, want))

    elif kind == "encode":
        fa = frame(n, "a")
        pb = H.Field("pb", 24)
        item.declare(fa, pb)
        data_bits = fa.bits[:n - 24]
        fb_bits = data_bits + pb.bits
        msg_b = mkstr([HexChar(fb_bits[4 * i:4 * i + 4], True) for i in range(n // 4)])
        spec_par = core.bits_to_int(S.parity_of_data_bits(data_bits))

        def conc(m):
            a = fa.concrete(m)
            return {"msg": a, "msg_b": a[:-6].upper() + "%06X" % pb.val(m)}
        # (i) equals the transmitted parity of the data bits and ignores the PI field
        H.decide(item, "encode==parity(data)", lambda: pm.common.crc(fa.msg, encode=True),
                 lambda c: H.real_call("pyModeS.common.crc", c["msg"], encode=True), conc,
                 lambda k, v: k == "ret" and H.int_eq(v, spec_par))
        H.decide(item, "encode-ignores-PI", lambda: pm.common.crc(msg_b, encode=True),
                 lambda c: H.real_call("pyModeS.common.crc", c["msg_b"], encode=True), conc,
                 lambda k, v: k == "ret" and H.int_eq(v, spec_par))

        # (ii) closure: writing it into the last 24 bits makes the checksum zero
        def closed():
            c = pm.common.crc(fa.msg, encode=True)
            return pm.common.crc(fa.msg[:-6] + core.symx_fmt("%06X", c))

        def real_closed(c):
            r = H.real_call("pyModeS.common.crc", c["msg"], encode=True)
            if r[0] != "ret":
                return r
            return H.real_call("pyModeS.common.crc", c["msg"][:-6] + "%06X" % r[1])
        H.decide(item, "closure", closed, real_closed, conc, lambda k, v: k == "ret" and H.int_eq(v, 0))

    elif kind == "linear":
        fa, fb = frame(n, "a", "upper"), frame(n, "b", "upper")
        item.declare(fa, fb)
        xb = [bxor(x, y) for x, y in zip(fa.bits, fb.bits)]
        msg_x = mkstr([HexChar(xb[4 * i:4 * i + 4], True) for i in range(n // 4)])

        def f():
            return pm.common.crc(fa.msg) ^ pm.common.crc(fb.msg) ^ pm.common.crc(msg_x)

        def real(c):
            r = [H.real_call("pyModeS.common.crc", c[k]) for k in ("a", "b", "x")]
            if any(x[0] != "ret" for x in r):
                return r[0]
            return ("ret", r[0][1] ^ r[1][1] ^ r[2][1])

        def conc(m):
            a, b = fa.concrete(m), fb.concrete(m)
            return {"a": a, "b": b, "x": "%0*X" % (n // 4, int(a, 16) ^ int(b, 16))}
        H.decide(item, "crc(a^b)==crc(a)^crc(b)", f, real, conc, lambda k, v: k == "ret" and H.int_eq(v, 0))

    elif kind == "parity":
        # generator has an even number of terms: parity(crc(e)) == parity(e); so no odd-weight error has syndrome 0
        fr = frame(n, "e", "upper")
        item.declare(fr)

        def f():
            c = pm.common.crc(fr.msg)
            p = SymInt(bits=[ZERO1])
            for b in pad24(c):
                p = p ^ SymInt(bits=[b])
            return p
        allpar = ZERO1
        for b in fr.bits:
            allpar = bxor(allpar, b)

        def real(c):
            r = H.real_call("pyModeS.common.crc", c["msg"])
            return r if r[0] != "ret" else ("ret", bin(r[1]).count("1") & 1)
        H.decide(item, "parity(crc(e))==parity(e)", f, real, lambda m: {"msg": fr.concrete(m)},
                 lambda k, v: k == "ret" and H.int_eq(v, core.bits_to_int([allpar])))
        # consequence: odd weight => crc != 0.  The monolithic query (112-input XOR system) is out of reach of a CDCL
        # solver, so it is split: (a) the identity above, on the real function; (b) for every 24-bit value c,
        # parity(c) = 1 implies c != 0.  (a) and (b) compose to "no odd-weight error has a zero syndrome"; weights
        # 1, 3 (and 5, thorough) are additionally decided directly on the syndrome table (weightK items).
        c = z3.BitVec("c", 24)
        par = z3.Extract(0, 0, c)
        for j in range(1, 24):
            par = par ^ z3.Extract(j, j, c)
        item.prove("parity(c)=1=>c!=0", [par == 1], c != 0, replay=lambda m: (False, {}, "lemma"))
        item.sat_witness("odd-weight-exists", [allpar.true()])

    elif kind.startswith("weight"):
        fr, res, T = syndrome_table(pm, n)
        item.declare(fr)
        # the table is only trusted after z3 agrees that crc(f) == XOR_i f_i * T[i]
        lin = []
        for j in range(24):
            acc = ZERO1
            for i in range(n):
                if (T[i] >> (23 - j)) & 1:
                    acc = bxor(acc, fr.bits[i])
            lin.append(acc)
        item.prove("crc==sum(f_i*T_i)", [], z3.Not(bits_differ(res, lin)),
                   replay=lambda m: (False, {}, "table extraction mismatch"))
        item.paths += 1
        k = int(kind[6:])
        idx = [z3.BitVec("i%d" % j, 8) for j in range(k)]
        item.declare(*idx)
        tab = z3.Array("T", z3.BitVecSort(8), z3.BitVecSort(24))
        tabdef = [tab[i] == T[i] for i in range(n)]
        order = [z3.ULT(idx[j], idx[j + 1]) for j in range(k - 1)] + [z3.ULT(idx[-1], n)]
        x = tab[idx[0]]
        for v in idx[1:]:
            x = x ^ tab[v]

        def replay(m):
            ii = [m.eval(v, model_completion=True).as_long() for v in idx]
            e = 0
            for i in ii:
                e |= 1 << (n - 1 - i)
            return _replay_zero("%0*X" % (n // 4, e), "weight-%d error at bit indices %s has zero syndrome" % (k, ii))
        item.prove("no-%d-columns-cancel" % k, tabdef + order, x != 0, replay=replay, timeout_ms=900000)
        item.sat_witness("indices-exist", order)

    elif kind == "burst":
        for off in range(prm["lo"], prm["hi"]):
            pat = H.Field("pat%d" % off, 24)
            item.declare(pat)
            bits = [ZERO1] * off + pat.bits + [ZERO1] * (n - 24 - off)
            msg = mkstr([HexChar(bits[4 * i:4 * i + 4], True) for i in range(n // 4)])
            (p,) = item.explore(lambda: pm.common.crc(msg))

            def replay(m, off=off, pat=pat):
                e = pat.val(m) << (n - 24 - off)
                return _replay_zero("%0*X" % (n // 4, e), "burst of <=24 bits at offset %d has zero syndrome" % off)
            item.prove("burst@%d" % off, p.pc + [pat.sym().nonzero()], SymInt.lift(p.value).nonzero(), replay=replay)

    elif kind == "checkmsg":
        item.encoded("pyModeS.extra.rtlreader.RtlReader._check_msg", "pyModeS.py_common.df")
        from pyModeS.extra import rtlreader
        rd = object.__new__(rtlreader.RtlReader)
        fr = H.Frame([("DF", 5), ("rest", 107)], prefix="m", case="upper")
        item.declare(fr)
        spec = core.bits_to_int(S.rem_bits(fr.bits))
        H.decide(item, "DF17 admitted => crc==0", lambda: rd._check_msg(fr.msg),
                 lambda c: H.real_driver("rtl_check_msg", c["msg"]), lambda m: {"msg": fr.concrete(m)},
                 lambda k, v: k == "ret" and H.zimp(H.zand(v if isinstance(v, bool) else core.tobool(v),
                                                           fr["DF"].int() == 17), spec == 0))
        item.sat_witness("df17-valid-exists", [fr["DF"].int() == 17, spec == 0])
    else:
        raise H.HarnessError("unknown item " + name)


def _replay_zero(msg, what):
    r = H.real_call("pyModeS.common.crc", msg)
    ok = r[0] == "ret" and r[1] == 0 and int(msg, 16) != 0
    return ok, {"msg": msg, "valid_frame": "0" * len(msg)}, "%s: crc(%s)=%r (differs from the valid all-zero frame)" % (
        what, msg, r[1:])


