"""What is claimed. gen_manifest.py turns this into MANIFEST.json."""

CLAIMED = {}

NOT_APPLICABLE = {
    "C20": "transcendental float numerics (numpy **, exp, sqrt, arccos on doubles): no SMT theory reaches the stated "
           "quantities; z3 nlsat answers unknown on the tas<->cas inverse identity; see DESIGN.md section 5 C20",
}

# designed (DESIGN.md section 5) but the harness is not finished: not claimed, never checked with a weaker technique
NOT_BUILT = {pid: "harness not built yet (DESIGN.md section 7.1 order of construction)" for pid in
             ["C01", "C02", "C03", "C04", "C05", "C06", "C07", "C08", "C09", "C10", "C11", "C12", "C13", "C14",
              "C15", "C16", "C17", "C18", "C19"]}
