"""What is claimed. gen_manifest.py turns this into MANIFEST.json."""

T_SYMX = ("symbolic execution of the real Python source with z3-backed proxies (all feasible paths), "
          "SMT verdict (unsat) per obligation against an independent oracle, counterexamples replayed on unpatched code")
NOTE = ("trusted: z3 5.1, the symx proxy models (validated every run: one solver-chosen input per explored path is run "
        "through the unpatched code and must give the predicted outcome), the oracle in /verif/spec; bounds and "
        "exclusions are listed in the evidence file")

CLAIMED = {
    "C01": {
        "text": "bounded symbolic checking: for every 56- and 112-bit frame (all bits and hex cases symbolic) the real "
                "crc() equals the LFSR remainder mod 0x1FFF409, encode=True ignores the parity field and closes to "
                "zero, crc is GF(2)-linear, and no error of weight 1-5 or burst <= 24 bits has a zero syndrome; the "
                "bit-serial crc_legacy() computes the same remainder / parity; the demodulator admits a DF17 frame only "
                "with zero remainder. Not an unbounded proof: lengths are the two legal ones.",
        "design_ref": "DESIGN.md section 5 C01",
        "note": NOTE,
        "technique": T_SYMX + "; GF(2)-affine normal form for CRC bits; symbolic column indices into the syndrome "
                              "table for weight-2/3/4/5 minimum-distance queries",
    },
    "C02": {
        "text": "bounded symbolic checking: for every address, payload, DF (symbolic per class), both lengths and every "
                "per-nibble hex case, icao()/adsb.icao()/allcall.icao() return '%06X' % address (AA field or parity XOR "
                "AP with AP built by the oracle), None for all other formats. History items: the same call on an earlier frame differing in one field first (two-call sequences decided jointly).",
        "design_ref": "DESIGN.md section 5 C02", "note": NOTE, "technique": T_SYMX,
    },
    "C07": {
        "text": "bounded symbolic checking: all 13-bit codes and 12-bit fields as solver variables against the Annex 10 "
                "Gillham/Q/M oracle, every other frame bit free, DF/TC symbolic; plus a QF_FP lemma that "
                "int(N*3.28084) in binary64 equals floor(N*328084/100000) for all 12-bit N. History items: the same call on an earlier frame differing in one field first (two-call sequences decided jointly).",
        "design_ref": "DESIGN.md section 5 C07", "note": NOTE, "technique": T_SYMX + "; QF_FP lemma for the metric code",
    },
    "C08": {
        "text": "bounded symbolic checking: all 2^13 identity codes (incl. X), FS/DR/IIS/IDS/CA and the DF11 II/SI overlay "
                "as solver variables with all other bits free and DF symbolic; each decoder returns the field or raises "
                "RuntimeError outside its formats. History items: the same call on an earlier frame differing in one field first (two-call sequences decided jointly).",
        "design_ref": "DESIGN.md section 5 C08", "note": NOTE, "technique": T_SYMX,
    },
    "C10": {
        "text": "bounded symbolic checking: eight symbolic 6-bit codes under the legality constraint (all 37^8 "
                "identifications), per-position equality with the Annex 10 alphabet, category, TC/DF guards.",
        "design_ref": "DESIGN.md section 5 C10", "note": NOTE, "technique": T_SYMX,
    },
    "C18": {
        "text": "bounded symbolic checking: uplink_icao inverts the Annex 10 uplink AP construction for every address and "
                "data bits (both lengths); uf/bds/pr/ic/lockout/uplink_fields equal the Annex 10 field map for every "
                "UF/RR/DI/SD/PR/IC/CL combination with all other bits free. History items: the same call on an earlier frame differing in one field first (two-call sequences decided jointly).",
        "design_ref": "DESIGN.md section 5 C18", "note": NOTE, "technique": T_SYMX,
    },
    "C09": {
        "text": "bounded symbolic checking: every TC19 subtype 1-4 field combination and every TC5-8 movement/track code "
                "with all other bits free; results equal the DO-260B decode, None exactly when unavailable; libm is "
                "uninterpreted (operands, order and [0,360) normalisation are what is decided). History items: the same call on an earlier frame differing in one field first (two-call sequences decided jointly).",
        "design_ref": "DESIGN.md section 5 C09", "note": NOTE, "technique": T_SYMX + "; libm as uninterpreted functions",
    },
    "C11": {
        "text": "bounded symbolic checking: each Comm-B field decoder on a fully symbolic 112-bit frame equals the Doc 9871 "
                "row (status gate, two's complement, LSB, offset, wrap) within LSB*1e-6; cap17 four bits at a time; "
                "commb.* object identity. History items: the same call on an earlier frame differing in one field first (two-call sequences decided jointly).",
        "design_ref": "DESIGN.md section 5 C11", "note": NOTE, "technique": T_SYMX,
    },
    "C13": {
        "text": "bounded symbolic checking: every TC28/29(subtype 0,1)/31/19 status, intent and quality field on a fully "
                "symbolic frame equals the DO-260A/B layout; look-ups total on their domain and monotone (two-copy "
                "frames through the real functions). History items: the same call on an earlier frame differing in one field first (two-call sequences decided jointly).",
        "design_ref": "DESIGN.md section 5 C13", "note": NOTE, "technique": T_SYMX,
    },
}

T_CPR = ("symbolic execution of the real Python source with z3-backed proxies over mixed integer/real linear arithmetic "
         "(exact rational constants, cprNL replaced by the staircase extracted from the real function and forked per "
         "band with model guidance), SMT verdict (unsat) per path against the DO-260B encoder written independently as "
         "constraints; counterexamples and one rounding-robust sample per path replayed on the unpatched code")
CLAIMED.update({
    "C03": {
        "text": "bounded symbolic checking: for every pair of real positions in one NL band (all 59, both hemispheres, the "
                "equator straddled) at most 1 NM apart (rational box), encoded by the DO-260B encoder as an even and an "
                "odd airborne frame, position()/airborne_position() return exactly the newer frame's quantised position "
                "(within one step of the truth, longitude in [-180,180]) for both argument orders and all time orders; "
                "cross-band pairs give None or the right position; same parity -> RuntimeError; type-code routing.",
        "design_ref": "DESIGN.md section 5 C03", "note": NOTE, "technique": T_CPR,
    },
    "C04": {
        "text": "bounded symbolic checking: for every real position (per NL band, hemisphere, parity, airborne/surface) and "
                "every real reference inside the half-zone box minus one quantisation step (around the circle in "
                "longitude), position_with_ref() and the two underlying decoders return exactly the encoder's quantised "
                "position, hence the same value for every admissible reference; type-code routing.",
        "design_ref": "DESIGN.md section 5 C04", "note": NOTE, "technique": T_CPR,
    },
    "C05": {
        "text": "bounded symbolic checking: for every pair of real surface positions <= 0.2 NM apart (rational box) per NL "
                "band and every receiver within 45 NM / 44.99 deg of longitude (around the circle, either side of the "
                "equator), position()/surface_position() return exactly the newer frame's quantised position; "
                "RuntimeError without a complete reference.",
        "design_ref": "DESIGN.md section 5 C05", "note": NOTE, "technique": T_CPR,
    },
})

CLAIMED["C06"] = {
    "text": "bounded symbolic checking (QF_FP + UF) of the real cprNL over every binary64 latitude in [-90,90]: 59 within "
            "1e-8 of 0, 2 only within 1e-9 of 87, 1 beyond, evenness, and outside those windows exactly "
            "floor(2pi/ACOS(1-a/COS(pi/180|lat|)^2)) with no other special case (numpy cos/arccos uninterpreted). "
            "PARTIAL: that this closed form is the DO-260B staircase is NOT solver-decided; it is extracted by "
            "evaluating the real function on a 0.0005-degree grid with every change bisected to adjacent doubles and "
            "compared with the 58 transition latitudes (+-1e-9 deg), under assumption A-NL.",
    "design_ref": "DESIGN.md section 5 C06", "note": NOTE,
    "technique": "symbolic execution of the real Python source with z3 Float64 proxies (all feasible paths), SMT verdict "
                 "(unsat, QF_FP+UF) per path against an independently built closed-form term; counterexamples replayed "
                 "on unpatched code; the closed-form staircase itself by concrete table extraction (stated, not a "
                 "solver verdict)",
}

CLAIMED["C14"] = {
    "text": "bounded symbolic checking: every public decoder / dispatcher (adsb.__all__, commb.__all__, surv, allcall, "
            "message functions of common, bds.infer, tell) on one fully symbolic 112-bit frame and one fully symbolic "
            "56-bit frame (pair functions: two frames): every feasible path ends in a value of the documented shape or "
            "RuntimeError, and a value is returned only inside the documented DF / type code / TC29-subtype domain "
            "(spec/domains.py); call sequences (long, short, long frame through the same function in one run) must satisfy "
            "the same claims per call. Bounds: seeded concrete CPR fields for the pair decoders (thorough: "
            "airborne_position fully symbolic); cap17 four capability bits at a time.",
    "design_ref": "DESIGN.md section 5 C14", "note": NOTE,
    "technique": T_SYMX + "; function summaries for the isXX predicates inside infer/tell; parity field parametrised as "
                          "parity(data) XOR free variable so CRCs collapse in the GF(2) normal form",
}

CLAIMED["C12"] = {
    "text": "bounded symbolic checking on one fully symbolic 112-bit frame: infer() (mrar both) never raises, returns "
            "EMPTY exactly for an all-zero payload, the Table register for DF17 type codes, and for DF20/21 exactly the "
            "sorted comma-join of the labels whose predicate summary holds; each isXX refuses every payload that breaks "
            "one of its Doc 9871 status / reserved-bit / BDS-id rules and accepts every in-envelope payload "
            "(BDS 1,0 1,7 2,0 3,0 4,0 4,5 5,0 6,0); is50or60 returns None exactly when not both apply and otherwise one "
            "of the three labels, the one of a smallest non-NaN candidate distance; each predicate called on the same payload "
            "under two headers in sequence answers as its own formula says (no state between calls). PARTIAL: the numeric "
            "values of the distances, BDS 6,0 completeness under the DF20 Mach/IAS cross-check and BDS 4,4 completeness "
            "are outside.",
    "design_ref": "DESIGN.md section 5 C12", "note": NOTE,
    "technique": T_SYMX + "; nested function summaries (each predicate explored once into a formula), aero / numpy "
                          "numerics as uninterpreted functions",
}

CLAIMED["C16"] = {
    "text": "bounded symbolic checking of the real framers on an instance without a socket: Beast (type 2/3 frames, "
            "interleaved type 1/4), its rssi twin, AVR raw and Skysense streams whose payload bytes are free 8-bit solver "
            "variables (0x1A exactly at an enumerated escape set, doubled on the wire), delivered in every single cut "
            "(quick) / every double cut and 1-byte pieces (thorough): after every read the cumulative output is a prefix "
            "of the frame list made of completely received frames, and at the end it is exactly the frame list; "
            "NetSource.handle_messages forwards every long DF17/18 and DF20/21 message once and in order. Bounds: <= 3 "
            "frames, <= 2 escaped bytes, <= 2 cuts (plus 1-byte pieces).",
    "design_ref": "DESIGN.md section 5 C16", "note": NOTE,
    "technique": T_SYMX + "; byte values symbolic, cut positions / escape positions / frame shapes enumerated; decisions "
                          "implied by the work item's assumptions cached across runs",
}

CLAIMED["C17"] = {
    "text": "bounded symbolic checking of ONE process_raw() step of the real Decode from an arbitrary state satisfying a "
            "representation invariant (so the verdicts extend to histories of any length): no exception and invariant "
            "preserved for every type code x state shape x ADS-B version with all other bits and all times symbolic; an "
            "aircraft heard <= 59 s ago stays, one silent > 61 s goes; a Comm-B message changes nothing unless its address "
            "is already listed (any hex case); a stored position that is updated is within 0.001 deg (one CPR step where "
            "that is coarser) of the true position for every 600-kt motion box, through the reference path (< 180 s) and "
            "the even/odd pair path (< 10 s), per NL band; an older reference / pair is not used; two aircraft in one "
            "batch do not leak into each other; the table key is the canonical upper-case address. Bounds: <= 2 aircraft, CPR fields seeded in the totality "
            "items, surface targets poleward of 88.5 deg and > 45 NM from the receiver outside.",
    "design_ref": "DESIGN.md section 5 C17", "note": NOTE,
    "technique": T_CPR + "; one inductive step from an arbitrary invariant-satisfying state (symbolic table contents, "
                         "concrete dictionary keys)",
}

CLAIMED["C15"] = {
    "text": "bounded symbolic checking of a SOURCE-LEVEL MODEL of c_common.pyx (regenerated from the current .pyx by a "
            "de-cythoniser: typed stores/returns as LP64 conversions that report overflow, memoryviews as aliases) against "
            "py_common on symbolic inputs for all 19 shared functions (hex strings of 2-28 digits with symbolic case, bit "
            "strings up to 56 bits, all doubles in range, frames of both lengths), under the property's sentinel map, and "
            "of seven decoders executed once per implementation. NOT the compiled extension: no Cython exists in the "
            "sandbox; Cython code generation and the C compiler are outside. The translator is validated against the "
            "prebuilt binary on the functions whose source is unchanged.",
    "design_ref": "DESIGN.md section 5 C15", "note": NOTE,
    "technique": T_SYMX + "; the .pyx is translated to Python with explicit C conversions and executed with the same "
                          "proxies; character helpers proven equal to closed forms first (lemmas)",
}

CLAIMED["C19"] = {
    "text": "bounded symbolic checking of the real RtlReader._process_buffer / _check_preamble / _calc_noise / _check_msg on "
            "an instance without hardware: for a finite set of CONCRETE frame contents (the repo's test frames and seeded "
            "DF17 frames with correct parity, DF20/21, DF4/5/11; 1-2 frames per buffer, both sample-offset parities) and "
            "symbolic analogue values (4 independent pulse levels in [0.3, 1.4], 4 independent noise levels within "
            "[N/2, N], 10 dB below the weakest pulse, seeded assignment to samples) the returned list is exactly the frame "
            "list; separately, for all 112 symbolic bits, _check_msg admits a DF17 frame only with zero remainder. "
            "Frame bits are not symbolic (2^56 slicer paths).",
    "design_ref": "DESIGN.md section 5 C19", "note": NOTE,
    "technique": T_SYMX + "; linear real arithmetic over symbolic sample amplitudes, numpy reshape/mean and min/max over "
                          "symbolic sequences modelled exactly",
}

NOT_APPLICABLE = {
    "C20": "transcendental float numerics (numpy **, exp, sqrt, arccos on doubles): no SMT theory reaches the stated "
           "quantities; z3 nlsat answers unknown on the tas<->cas inverse identity; see DESIGN.md section 5 C20",
}

# designed (DESIGN.md section 5) but the harness is not finished: not claimed, never checked with a weaker technique
NOT_BUILT = {pid: "harness not built yet (DESIGN.md section 7.1 order of construction)" for pid in
             ["C15", "C17", "C19"] if pid not in CLAIMED}
