"""What is claimed. gen_manifest.py turns this into MANIFEST.json."""

T_SYMX = ("symbolic execution of the real Python source with z3-backed proxies (all feasible paths), "
          "SMT verdict (unsat) per obligation against an independent oracle, counterexamples replayed on unpatched code")
NOTE = ("trusted: z3 5.1, the symx proxy models (validated every run: one solver-chosen input per explored path is run "
        "through the unpatched code and must give the predicted outcome), the oracle in /verif/spec; bounds and "
        "exclusions are listed in the evidence file")

CLAIMED = {
    "C01": {
        "text": "bounded symbolic checking: for every 56- and 112-bit frame (all bits and hex cases symbolic) the real "
                "crc() equals the LFSR remainder mod 0x1FFF409, encode=True ignores the parity field and closes to "
                "zero, crc is GF(2)-linear, and no error of weight 1-5 or burst <= 24 bits has a zero syndrome; the "
                "demodulator admits a DF17 frame only with zero remainder. Not an unbounded proof: lengths are the "
                "two legal ones.",
        "design_ref": "DESIGN.md section 5 C01",
        "note": NOTE,
        "technique": T_SYMX + "; GF(2)-affine normal form for CRC bits; symbolic column indices into the syndrome "
                              "table for weight-2/3/4/5 minimum-distance queries",
    },
}

NOT_APPLICABLE = {
    "C20": "transcendental float numerics (numpy **, exp, sqrt, arccos on doubles): no SMT theory reaches the stated "
           "quantities; z3 nlsat answers unknown on the tas<->cas inverse identity; see DESIGN.md section 5 C20",
}

# designed (DESIGN.md section 5) but the harness is not finished: not claimed, never checked with a weaker technique
NOT_BUILT = {pid: "harness not built yet (DESIGN.md section 7.1 order of construction)" for pid in
             ["C02", "C03", "C04", "C05", "C06", "C07", "C08", "C09", "C10", "C11", "C12", "C13", "C14",
              "C15", "C16", "C17", "C18", "C19"]}
