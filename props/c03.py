"""C03 - airborne CPR global decode recovers the encoded position (DESIGN.md section 5 C03)."""
import math
import random
from fractions import Fraction

import z3

from props import cprlib as L
from spec import cpr as S
from symx import core, harness as H
from symx.loader import load_repo

META = {
    "bounds": ["per work item: one NL band n (1..59; the equator band also with the pair straddling the equator) x "
               "hemisphere x which frame is newer (t0>t1, t0<t1, t0==t1) x argument order; inside it both true "
               "positions (reals), all other frame bits are solver variables; type codes concrete per item (drawn from "
               "9-18 / 20-22 by seed), routing by symbolic type codes in the 'route' item; thorough = all 59 bands",
               "displacement: |dlat| <= 1/60 deg and |dlon| <= (1/60 deg)/cos(lat_max of the band) around the circle "
               "(a rational box that contains every pair at most 1 NM apart)",
               "cross-band items: the two quantised latitudes in adjacent NL bands -> result must be None or correct"],
    "outside": ["quantised latitudes within 1e-9 deg of one of the 58 NL transition latitudes",
                "binary64 rounding inside the decoder (real back end with exact rational constants; floor arguments are "
                "multiples of 2^-17 below 2^7 and exact in binary64; the >=270 and >180 wraps are decided on exact "
                "values; the returned longitude is required inside [-180-1e-9, 180+1e-9])"],
    "stubs": ["cprNL -> staircase extracted from the real cprNL (assumption A-NL)", "numpy.floor -> exact floor"],
    "assumptions": ["DO-260B A.1.7.3 encoder (spec/cpr.py); A-NL"],
}

ORDERS_Q = [("even", "eo"), ("odd", "oe")]
ORDERS_T = [("even", "eo"), ("even", "oe"), ("odd", "eo"), ("odd", "oe"), ("tie", "eo"), ("tie", "oe")]


def items(tier, seed):
    out = []
    rnd = random.Random(seed)
    for n in L.bands(tier, seed):
        signs = ("N", "S", "EQ") if n == 59 else ("N", "S")
        for sg in signs:
            combos = ORDERS_T if tier == "thorough" else (ORDERS_Q if n % 2 else [("odd", "eo"), ("even", "oe")])
            if tier != "thorough" and n in (1, 59):
                combos = ORDERS_T[:4]
            for newer, order in combos:
                cls = rnd.choice(["baro", "gnss"])
                tcs = [rnd.randint(9, 18), rnd.randint(9, 18)] if cls == "baro" else [rnd.randint(20, 22), rnd.randint(20, 22)]
                out.append(("glob-n%02d-%s-%s-%s" % (n, sg, newer, order),
                            {"n": n, "sign": sg, "newer": newer, "order": order, "tcs": tcs}))
    xb = list(range(1, 59)) if tier == "thorough" else [1, 2, 29, 58]
    for n in xb:
        for sg in ("N", "S"):
            for newer in ("even", "odd"):
                out.append(("xband-n%02d-%s-%s" % (n, sg, newer), {"n": n, "sign": sg, "newer": newer, "order": "eo",
                                                                   "tcs": [11, 11], "xband": True}))
    out += [("parity", {}), ("route", {})]
    return out


def band_cond(r, n, sg):
    if sg == "EQ":
        lo, hi = S.band(59)
        return z3.And(r >= -S.Q(hi), r <= S.Q(hi))
    return S.in_band(r, n, 1 if sg == "N" else -1)


def run_item(item):
    pm, stair = L.setup(item)
    if item.name == "route":
        return run_route(item, pm)
    if item.name == "parity":
        return run_parity(item, pm)
    prm = item.params
    n, sg, newer, order, tcs = prm["n"], prm["sign"], prm["newer"], prm["order"], prm["tcs"]
    xband = prm.get("xband", False)
    n_e, n_o = (n, n) if not xband else ((n, n + 1) if newer == "even" else (n + 1, n))
    fe = L.pos_frame(prefix="e_", F=0, tc=tcs[0])
    fo = L.pos_frame(prefix="o_", F=1, tc=tcs[1])
    late, lone, lato, lono = z3.Reals("lat_e lon_e lat_o lon_o")
    item.declare(fe, fo, late, lone, lato, lono)
    ee = S.Enc(late, lone, 0, n_e, 360, "e")
    eo = S.Enc(lato, lono, 1, n_o, 360, "o")
    d = Fraction(1, 60)
    lo_b, hi_b = S.band(max(n_e, n_o) if not xband else min(n_e, n_o))
    latmax = float(S.band(min(n_e, n_o))[1])
    c = math.cos(math.radians(min(latmax + 0.02, 89.9999)))
    dlmax = min(Fraction(360), d / Fraction(c).limit_denominator(10 ** 6) + Fraction(1, 10 ** 6))
    dl = lono - lone
    item.assume(L.adsb_df(fe), L.adsb_df(fo),
                late >= -90, late <= 90, lato >= -90, lato <= 90, lone >= -180, lone < 180, lono >= -180, lono < 180,
                *ee.cons, *eo.cons, band_cond(ee.rlat, n_e, sg), band_cond(eo.rlat, n_o, sg),
                fe["LAT"].var == ee.YZ, fe["LON"].var == ee.XZ, fo["LAT"].var == eo.YZ, fo["LON"].var == eo.XZ,
                lato - late <= S.Q(d), late - lato <= S.Q(d),
                z3.Or(z3.And(dl <= S.Q(dlmax), dl >= -S.Q(dlmax)), dl >= 360 - S.Q(dlmax), dl <= -360 + S.Q(dlmax)))
    t_e, t_o = {"even": (1000, 993), "odd": (993, 1000), "tie": (1000, 1000)}[newer]
    if order == "eo":
        args = lambda a, b: (a, b, t_e, t_o)
        m0, m1 = fe, fo
    else:
        args = lambda a, b: (b, a, t_o, t_e)
        m0, m1 = fo, fe
    conc = lambda m: {"msg0": m0.concrete(m), "msg1": m1.concrete(m), "t0": args(0, 0)[2], "t1": args(0, 0)[3],
                      "lat_e": L.fval(m, late), "lon_e": L.fval(m, lone), "lat_o": L.fval(m, lato), "lon_o": L.fval(m, lono)}

    def post(kind, v):
        if kind != "ret":
            return False
        if v is None:
            return bool(xband)
        ce = L.result_claim(v, ee, (-180, 180))
        co = L.result_claim(v, eo, (-180, 180))
        if newer == "even":
            return ce
        if newer == "odd":
            return co
        return H.zor(ce, co)
    item.encoded("pyModeS.decoder.adsb.position", "pyModeS.decoder.bds.bds05.airborne_position", "pyModeS.py_common.floor")
    targets = [("pyModeS.adsb.position", pm.adsb.position)]
    if item.tier == "thorough":
        targets.append(("pyModeS.adsb.airborne_position", pm.adsb.airborne_position))
    for path, f in targets:
        H.decide(item, path.split("pyModeS.")[1], lambda: f(*args(fe.msg, fo.msg)),
                 lambda c_: H.real_call(path, c_["msg0"], c_["msg1"], c_["t0"], c_["t1"]), conc, post)
    item.sat_witness("reachable", [])


def run_parity(item, pm):
    """two frames of the same parity are rejected with RuntimeError (all other bits free)"""
    fa = L.pos_frame(prefix="a_", case="mixed")
    fb = L.pos_frame(prefix="b_", case="mixed")
    item.declare(fa, fb)
    item.assume(L.adsb_df(fa), L.adsb_df(fb), fa["F"].int() == fb["F"].int(),
                z3.Or(z3.And(L.tc_class(fa, "baro"), L.tc_class(fb, "baro")),
                      z3.And(L.tc_class(fa, "gnss"), L.tc_class(fb, "gnss"))))
    conc = lambda m: {"msg0": fa.concrete(m), "msg1": fb.concrete(m)}
    item.encoded("pyModeS.decoder.bds.bds05.airborne_position")
    for path, f in (("pyModeS.adsb.position", pm.adsb.position), ("pyModeS.adsb.airborne_position", pm.adsb.airborne_position)):
        H.decide(item, path.split("pyModeS.")[1], lambda: f(fa.msg, fb.msg, 5, 7),
                 lambda c: H.real_call(path, c["msg0"], c["msg1"], 5, 7), conc,
                 lambda k, v: k == "exc" and v == "RuntimeError")


def run_route(item, pm):
    """position(): airborne decoder for two TC 9-18 or two TC 20-22 frames, surface decoder for two TC 5-8 frames
    (RuntimeError without a reference), RuntimeError for anything else; arguments passed through unchanged"""
    import pyModeS.decoder.adsb as A
    spec = [("DF", 5), ("CA", 3), ("ICAO", 24), ("TC", 5), ("REST", 51), ("PI", 24)]
    fa = H.Frame(spec, prefix="a_", case="mixed")
    fb = H.Frame(spec, prefix="b_", case="mixed")
    item.declare(fa, fb)
    item.encoded("pyModeS.decoder.adsb.position")
    saved = (A.surface_position, A.airborne_position)
    A.surface_position = lambda a, b, t0, t1, la, lo: ("surf", a is fa.msg, b is fb.msg, t0, t1, la, lo)
    A.airborne_position = lambda a, b, t0, t1: ("air", a is fa.msg, b is fb.msg, t0, t1)
    try:
        paths_ref = item.explore(lambda: A.position(fa.msg, fb.msg, 3, 4, 1.5, 2.5))
        paths_noref = item.explore(lambda: A.position(fa.msg, fb.msg, 3, 4))
        paths_half = item.explore(lambda: A.position(fa.msg, fb.msg, 3, 4, 1.5, None))
    finally:
        A.surface_position, A.airborne_position = saved
    adsb = z3.And(L.adsb_df(fa), L.adsb_df(fb))
    both = lambda k: z3.And(L.tc_class(fa, k), L.tc_class(fb, k))
    air = z3.And(adsb, z3.Or(both("baro"), both("gnss")))
    surf = z3.And(adsb, both("surf"))
    for paths, ref in ((paths_ref, (1.5, 2.5)), (paths_noref, (None, None)), (paths_half, (1.5, None))):
        hasref = ref[0] is not None and ref[1] is not None
        for p in paths:
            if p.kind == "exc":
                ok = type(p.value).__name__ == "RuntimeError"
                claim = (z3.Not(z3.Or(air, surf)) if hasref else z3.Not(air)) if ok else False
            elif p.value == ("air", True, True, 3, 4):
                claim = air
            elif hasref and p.value == ("surf", True, True, 3, 4) + ref:
                claim = surf
            else:
                claim = False

            def replay(model, _ref=ref):
                a, b = fa.concrete(model), fb.concrete(model)
                r = H.real_call("pyModeS.adsb.position", a, b, 3, 4, *_ref)

                def cls(msg):
                    d_, t_ = int(msg[0:2], 16) >> 3, int(msg[8:10], 16) >> 3
                    if d_ not in (17, 18):
                        return None
                    return "surf" if 5 <= t_ <= 8 else "baro" if 9 <= t_ <= 18 else "gnss" if 20 <= t_ <= 22 else None
                ca, cb = cls(a), cls(b)
                if ca is not None and ca == cb and ca != "surf":
                    want = H.real_call("pyModeS.decoder.bds.bds05.airborne_position", a, b, 3, 4)
                    bad = r != want
                elif ca == cb == "surf" and _ref[0] is not None and _ref[1] is not None:
                    want = H.real_call("pyModeS.decoder.bds.bds06.surface_position", a, b, 3, 4, *_ref)
                    bad = r != want
                else:
                    bad = not (r[0] == "exc" and r[1] == "RuntimeError")
                return bad, {"msg0": a, "msg1": b, "ref": list(_ref)}, "position() routing: %r" % (H.jsonable(r[:2]),)
            item.prove("route", p.pc, claim, replay)
