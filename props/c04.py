"""C04 - CPR decode with a reference position, airborne and surface (DESIGN.md section 5 C04)."""
from fractions import Fraction

import z3

from props import cprlib as L
from spec import cpr as S
from symx import core, harness as H
from symx.core import SymReal
from symx.loader import load_repo

META = {
    "bounds": ["per work item: one NL band n (1..59) x hemisphere x CPR format i x airborne/surface; inside it the true "
               "position (reals, lat in [-90,90], lon in [-180,180)), the reference (reals) and every other frame bit "
               "are solver variables; thorough = all 59 bands, quick = 12 bands incl. poles/equator bands",
               "reference box: |lat_ref - lat| <= Dlat/2 - Dlat/2^17 and lon_ref within Dlon/2 - Dlon/2^17 of lon "
               "measured around the circle (so references across the antimeridian are inside)"],
    "outside": ["the last 2^-17 of a zone before the half-zone edge (with margin 0 every CPR decoder is ambiguous there: "
                "the encoder's own rounding can move the frame across the edge)",
                "quantised latitudes within 1e-9 deg of one of the 58 NL transition latitudes",
                "binary64 rounding inside the decoder (real back end with exact rational constants; one rounded "
                "division on the reference can flip floor() only within 1e-13 deg of the half-zone edge, inside the "
                "excluded margin); every explored path is additionally replayed on the real code with a "
                "rounding-robust sample"],
    "stubs": ["cprNL -> staircase extracted from the real cprNL on every source change (assumption A-NL: constant "
              "between consecutive extracted breakpoints)", "numpy.floor -> exact floor"],
    "assumptions": ["DO-260B A.1.7.3 encoder (spec/cpr.py); A-NL"],
}


def items(tier, seed):
    out = []
    for n in L.bands(tier, seed):
        for sign in (1, -1):
            for i in (0, 1):
                for kind in ("air", "surf"):
                    out.append(("ref-%s-n%02d-%s-i%d" % (kind, n, "N" if sign > 0 else "S", i),
                                {"n": n, "sign": sign, "i": i, "kind": kind}))
    out.append(("route", {}))
    return out


def run_item(item):
    pm, stair = L.setup(item)
    prm = item.params
    if item.name == "route":
        return run_route(item, pm)
    n, sign, i, kind = prm["n"], prm["sign"], prm["i"], prm["kind"]
    zone = 360 if kind == "air" else 90
    fr = L.pos_frame(F=i)
    lat, lon, lat_ref, lon_ref = z3.Reals("lat lon lat_ref lon_ref")
    item.declare(fr, lat, lon, lat_ref, lon_ref)
    item.real_inputs = [lat_ref, lon_ref]
    enc = S.Enc(lat, lon, i, n, zone, "p")
    stair.hint = None
    ml = enc.dlat / 2 - enc.step_lat
    mo = enc.dlon / 2 - enc.step_lon
    dl = lon_ref - lon
    item.assume(L.adsb_df(fr), L.tc_class(fr, kind),
                lat >= -90, lat <= 90, lon >= -180, lon < 180,
                lat_ref >= -90, lat_ref <= 90, lon_ref >= -180, lon_ref <= 180,
                *enc.cons, S.in_band(enc.rlat, n, sign),
                fr["LAT"].var == enc.YZ, fr["LON"].var == enc.XZ,
                lat_ref - lat <= S.Q(ml), lat - lat_ref <= S.Q(ml),
                z3.Or([z3.And(dl + k <= S.Q(mo), dl + k >= -S.Q(mo)) for k in (-360, 0, 360)]))
    conc = lambda m: {"msg": fr.concrete(m), "lat_ref": L.fval(m, lat_ref), "lon_ref": L.fval(m, lon_ref),
                      "lat": L.fval(m, lat), "lon": L.fval(m, lon)}

    def post(kind_, v):
        if kind_ != "ret":
            return False
        return L.result_claim(v, enc)
    targets = [("pyModeS.adsb.position_with_ref", pm.adsb.position_with_ref)]
    if item.tier == "thorough":
        targets.append(("pyModeS.decoder.bds.bds05.airborne_position_with_ref", pm.decoder.bds.bds05.airborne_position_with_ref)
                       if kind == "air" else
                       ("pyModeS.decoder.bds.bds06.surface_position_with_ref", pm.decoder.bds.bds06.surface_position_with_ref))
    item.encoded("pyModeS.decoder.adsb.position_with_ref",
                 "pyModeS.decoder.bds.bds05.airborne_position_with_ref" if kind == "air"
                 else "pyModeS.decoder.bds.bds06.surface_position_with_ref", "pyModeS.py_common.floor")
    for path, f in targets:
        H.decide(item, path.split("pyModeS.")[1],
                 lambda: f(fr.msg, SymReal(lat_ref), SymReal(lon_ref)),
                 lambda c: H.real_call(path, c["msg"], c["lat_ref"], c["lon_ref"]), conc, post)
    # stability (two-copy): a second reference anywhere in the same admissible box gives the identical result
    lat_r2, lon_r2 = z3.Reals("lat_ref2 lon_ref2")
    item.declare(lat_r2, lon_r2)
    item.real_inputs += [lat_r2, lon_r2]
    dl2 = lon_r2 - lon
    item.assume(lat_r2 >= -90, lat_r2 <= 90, lon_r2 >= -180, lon_r2 <= 180,
                lat_r2 - lat <= S.Q(ml), lat - lat_r2 <= S.Q(ml),
                z3.Or([z3.And(dl2 + k <= S.Q(mo), dl2 + k >= -S.Q(mo)) for k in (-360, 0, 360)]))
    path, f = targets[0]
    conc2 = lambda m: dict(conc(m), lat_ref2=L.fval(m, lat_r2), lon_ref2=L.fval(m, lon_r2))

    def two():
        return f(fr.msg, SymReal(lat_ref), SymReal(lon_ref)), f(fr.msg, SymReal(lat_r2), SymReal(lon_r2))

    def real_two(c):
        a = H.real_call(path, c["msg"], c["lat_ref"], c["lon_ref"])
        b = H.real_call(path, c["msg"], c["lat_ref2"], c["lon_ref2"])
        if a[0] != "ret" or b[0] != "ret":
            return a if a[0] != "ret" else b
        return ("ret", (a[1], b[1]))

    def post2(kind_, v, ctx):
        if kind_ != "ret" or not isinstance(v, tuple) or len(v) != 2:
            return False
        (la1, lo1), (la2, lo2) = v
        if ctx.conc is not None:
            return abs(la1 - la2) <= 1e-9 and float(S.circ_dist(Fraction(lo1), Fraction(lo2))) <= 1e-9
        return z3.And(H.real_close(la1, H.to_real_term(la2), L.TOL),
                      S.circ_close(H.to_real_term(lo1), H.to_real_term(lo2), L.TOL))
    H.decide(item, "stable", two, real_two, conc2, post2)
    item.sat_witness("inside", [])


def run_route(item, pm):
    """type-code routing of position_with_ref: surface decoder exactly for TC 5-8, airborne for 9-18 / 20-22,
    RuntimeError otherwise (the two decoders are replaced by recording stubs)"""
    import pyModeS.decoder.adsb as A
    fr = H.Frame([("DF", 5), ("CA", 3), ("ICAO", 24), ("TC", 5), ("REST", 51), ("PI", 24)], case="mixed")
    item.declare(fr)
    item.encoded("pyModeS.decoder.adsb.position_with_ref")
    calls = []
    saved = (A.surface_position_with_ref, A.airborne_position_with_ref)
    A.surface_position_with_ref = lambda m, la, lo: ("surf", m is fr.msg, la, lo)
    A.airborne_position_with_ref = lambda m, la, lo: ("air", m is fr.msg, la, lo)
    try:
        paths = item.explore(lambda: A.position_with_ref(fr.msg, 12.5, -33.25))
    finally:
        A.surface_position_with_ref, A.airborne_position_with_ref = saved
    df, tc = fr["DF"].int(), fr["TC"].int()
    adsb = z3.Or(df == 17, df == 18)
    for p in paths:
        if p.kind == "exc":
            claim = z3.Not(z3.And(adsb, z3.Or(z3.And(tc >= 5, tc <= 18), z3.And(tc >= 20, tc <= 22)))) \
                if type(p.value).__name__ == "RuntimeError" else False
        elif p.value == ("surf", True, 12.5, -33.25):
            claim = z3.And(adsb, tc >= 5, tc <= 8)
        elif p.value == ("air", True, 12.5, -33.25):
            claim = z3.And(adsb, z3.Or(z3.And(tc >= 9, tc <= 18), z3.And(tc >= 20, tc <= 22)))
        else:
            claim = False

        def replay(model, _p=p):
            msg = fr.concrete(model)
            r = H.real_call("pyModeS.adsb.position_with_ref", msg, 12.5, -33.25)
            d, t = int(msg[0:2], 16) >> 3, int(msg[8:10], 16) >> 3
            if d not in (17, 18) or not (5 <= t <= 18 or 20 <= t <= 22):
                bad = not (r[0] == "exc" and r[1] == "RuntimeError")
            else:
                want = H.real_call("pyModeS.decoder.bds.bds06.surface_position_with_ref" if t <= 8 else
                                   "pyModeS.decoder.bds.bds05.airborne_position_with_ref", msg, 12.5, -33.25)
                bad = r != want
            return bad, {"msg": msg}, "position_with_ref routing: %r" % (H.jsonable(r[:2]),)
        item.prove("route", p.pc, claim, replay)
