"""C02 - ICAO address recovery is exact and canonical for every downlink format (DESIGN.md section 5 C02)."""
import z3

from spec import crc as S
from symx import core, harness as H
from symx.core import HexChar, bxor
from symx.loader import load_repo

META = {
    "bounds": ["frames of exactly 56 and 112 bits; DF symbolic inside its class; address, payload and every hex "
               "letter case (one symbolic case flag per nibble) symbolic"],
    "outside": ["the Cython twin (C15)"],
    "stubs": [],
    "assumptions": ["AP = parity(data bits) XOR address (Annex 10 Vol IV 3.1.2.3.3.2), parity from spec/crc.py"],
}

AA_DF = (11, 17, 18)
AP_DF = (0, 4, 5, 16, 20, 21)
FUNCS = {"common.icao": "pyModeS.common.icao", "adsb.icao": "pyModeS.adsb.icao"}


def items(tier, seed):
    out = []
    for n in (56, 112):
        for case in ("upper", "lower", "mixed"):
            out.append(("aa-%d-%s" % (n, case), {"n": n, "case": case, "cls": "aa"}))
            out.append(("ap-%d-%s" % (n, case), {"n": n, "case": case, "cls": "ap"}))
        out.append(("other-%d" % n, {"n": n, "case": "mixed", "cls": "other"}))
    out.append(("allcall", {"n": 56, "case": "mixed", "cls": "allcall"}))
    # history: the integrity check (crc) or an address recovery on an earlier frame, then the address of this frame
    for n in (56, 112):
        out.append(("ap-%d-after-crc" % n, {"n": n, "case": "mixed", "cls": "ap", "after": "crc", "fresh": []}))
        out.append(("ap-%d-after-icao" % n, {"n": n, "case": "mixed", "cls": "ap", "after": "icao", "fresh": ["payload"]}))
    out.append(("aa-112-after-icao", {"n": 112, "case": "mixed", "cls": "aa", "after": "icao", "fresh": ["A", "DF"]}))
    return out


def build(n, cls, case):
    DF = H.Field("DF", 5)
    A = H.Field("A", 24)
    if cls in ("aa", "allcall"):
        X = H.Field("CA", 3)
        rest = H.Field("rest", n - 32)
        fr = H.Frame.custom([DF, X, A, rest], case=case)
    else:
        pay = H.Field("payload", n - 29)
        data_bits = DF.bits + pay.bits
        par = S.parity_of_data_bits(data_bits)
        ap = [bxor(p, a) for p, a in zip(par, A.bits)]
        fr = H.Frame.custom([DF, pay, ("derived", ap, None)], case=case)
        fr.fields["A"] = A
    return fr, DF, A


def run_item(item):
    item.cross_check = True      # thorough tier: discharged obligations are re-decided by cvc5
    pm = load_repo()
    prm = item.params
    n, cls, case = prm["n"], prm["cls"], prm["case"]
    fr, DF, A = build(n, cls, case)
    item.declare(fr, A, DF)
    df = DF.int()
    want = [HexChar(A.bits[4 * i:4 * i + 4], True) for i in range(6)]   # "%06X" % A, canonical upper case
    conc = lambda m: {"msg": fr.concrete(m), "A": "%06X" % A.val(m)}

    def in_set(vals):
        return z3.Or([df == v for v in vals])

    if cls == "aa":
        item.assume(in_set(AA_DF))
    elif cls == "ap":
        item.assume(in_set(AP_DF))
    elif cls == "other":
        item.assume(z3.Not(in_set(AA_DF + AP_DF)))
    else:
        item.assume(df == 11)

    fns = {"allcall.icao": "pyModeS.allcall.icao"} if cls == "allcall" else FUNCS
    for short, path in fns.items():
        item.encoded(path.replace("common", "py_common"))
        mod, fn = short.split(".")
        f = getattr(getattr(pm, mod), fn)
        if cls == "other":
            post = lambda k, v: k == "ret" and v is None
        else:
            post = lambda k, v: k == "ret" and H.str_eq(v, want)
        if prm.get("after"):
            if short != "common.icao":
                continue
            fr0 = H.sibling(fr, prm["fresh"])
            item.declare(fr0)
            ppath = "pyModeS.common." + prm["after"]
            g = getattr(pm.common, prm["after"])
            H.decide_after(item, "%s:%s after %s" % (short, cls, prm["after"]), fr, fr0, [(ppath, lambda: g(fr0.msg))],
                           lambda: f(fr.msg), path, post)
            continue
        H.decide(item, "%s:%s" % (short, cls), lambda: f(fr.msg), lambda c: H.real_call(path, c["msg"]), conc, post)
    item.sat_witness("class-nonempty", [])


