"""C11 - Comm-B register fields decode to the encoded engineering values (DESIGN.md section 5 C11)."""
import random
from fractions import Fraction

import z3

from spec import commb as S
from symx import core, harness as H
from symx.loader import load_repo

META = {
    "bounds": ["one 112-bit frame with DF, header, all 56 MB bits, parity and hex case symbolic; every field decoder of "
               "BDS 1,0 1,7 4,0 4,4 4,5 5,0 5,3 6,0 on it",
               "cap17: 4 capability bits symbolic at a time (all 6 groups), the other 20 from 4 seeded patterns "
               "(2^24 list shapes otherwise)"],
    "outside": ["binary64 rounding of value*LSB+offset (real back end with decimal constants; tolerance LSB*1e-6)"],
    "stubs": ["warnings.warn in the deprecated aliases runs natively"],
    "assumptions": ["Doc 9871 Appendix A layouts as tabulated in spec/commb.py"],
}


def items(tier, seed):
    out = [(n, {}) for n in sorted(S.FIELDS)] + [(n, {}) for n in sorted(S.ALIASES)]
    out += [("ovc10", {}), ("wind44", {}), ("temp44", {}), ("exports", {})]
    rnd = random.Random(seed)
    pats = [0, (1 << 24) - 1] + [rnd.getrandbits(24) for _ in range(2 if tier == "quick" else 6)]
    for g in range(6):
        out.append(("cap17-g%d" % g, {"group": g, "patterns": pats}))
    # history mode (harness.decide): the same decoder on an earlier frame with another MB field / capability nibble first
    out += [(n + "@after:MB", {}) for n in sorted(S.FIELDS) if n != "vr53"]
    out += [("cap17-g%d@after:cap%d" % (g, g), {"group": g, "patterns": pats[:3]}) for g in range(6)]
    return out


def frame():
    return H.Frame([("DF", 5), ("HDR", 27), ("MB", 56), ("AP", 24)], case="mixed")


def field_terms(fr, name):
    mod, st, sg, a, b, lsb, off, wrap = S.FIELDS[S.ALIASES.get(name, name)]
    mb = fr["MB"].bits
    U = core.bits_to_int(mb[a - 1:b])
    val = U
    if sg is not None:
        val = z3.If(mb[sg - 1].true(), U - (1 << (b - a + 1)), U)
    r = z3.ToReal(val) * core.rval(lsb) + off
    if wrap:
        r = z3.If(r < 0, r + 360, r)
    avail = mb[st - 1].true() if st is not None else z3.BoolVal(True)
    return mod, avail, r, lsb


def run_item(item):
    item.cross_check = True      # thorough tier: discharged obligations are re-decided by cvc5
    pm = load_repo()
    name = item.name
    fr = frame()
    item.declare(fr)
    conc = lambda m: {"msg": fr.concrete(m)}
    mb = fr["MB"].bits

    if name in S.FIELDS or name in S.ALIASES:
        mod, avail, want, lsb = field_terms(fr, name)
        import importlib
        path = "pyModeS.decoder.bds.%s.%s" % (mod, name) if mod == "bds53" else "pyModeS.commb.%s" % name
        f = getattr(importlib.import_module("pyModeS.decoder.bds.bds53"), name) if mod == "bds53" \
            else getattr(pm.commb, name)
        item.encoded("pyModeS.decoder.bds.%s.%s" % (mod, name))
        tol = lsb * Fraction(1, 10 ** 6)

        def post(kind, v, ctx):
            if kind != "ret":
                return False
            if ctx.conc is not None:
                e = S.expected(name, ctx.conc["msg"])
                if e is None or v is None:
                    return e is None and v is None
                return isinstance(v, (int, float)) and not isinstance(v, bool) and abs(Fraction(v) - e) <= tol
            if v is None:
                return z3.Not(avail)
            return H.zand(avail, H.real_close(v, want, tol))
        H.decide(item, name, lambda: f(fr.msg), lambda c: H.real_call(path, c["msg"]), conc, post)
        item.sat_witness("available", [avail])

    elif name == "ovc10":
        item.encoded("pyModeS.decoder.bds.bds10.ovc10")
        H.decide(item, name, lambda: pm.commb.ovc10(fr.msg), lambda c: H.real_call("pyModeS.commb.ovc10", c["msg"]), conc,
                 lambda k, v: k == "ret" and H.int_eq(v, z3.If(mb[14].true(), 1, 0)))

    elif name == "wind44":
        item.encoded("pyModeS.decoder.bds.bds44.wind44")
        spd = core.bits_to_int(mb[5:14])
        dr = z3.ToReal(core.bits_to_int(mb[14:23])) * 180 / 256

        def post(kind, v):
            if kind != "ret" or not isinstance(v, tuple) or len(v) != 2:
                return False
            if v[0] is None or v[1] is None:
                return H.zand(v[0] is None and v[1] is None, z3.Not(mb[4].true()))
            return H.zand(mb[4].true(), H.int_eq(v[0], spd), H.real_close(v[1], dr, 1e-9))
        H.decide(item, name, lambda: pm.commb.wind44(fr.msg), lambda c: H.real_call("pyModeS.commb.wind44", c["msg"]),
                 conc, post)

    elif name == "temp44":
        item.encoded("pyModeS.decoder.bds.bds44.temp44")
        U = core.bits_to_int(mb[24:34])
        val = z3.ToReal(z3.If(mb[23].true(), U - 1024, U))

        def post(kind, v):
            if kind != "ret" or not isinstance(v, tuple) or len(v) != 2:
                return False
            return H.zand(H.real_close(v[0], val / 4, 1e-9), H.real_close(v[1], val / 8, 1e-9))
        H.decide(item, name, lambda: pm.commb.temp44(fr.msg), lambda c: H.real_call("pyModeS.commb.temp44", c["msg"]),
                 conc, post)

    elif name == "exports":
        # "the functions reachable as pyModeS.commb.* are the same decoders": object identity, a concrete fact of the
        # loaded module graph (no input to quantify over); recorded as obligations decided without the solver.
        names = []
        for mod, fs in S.EXPORTS.items():
            for fn in fs:
                names.append(fn)
                same = getattr(pm.commb, fn, None) is getattr(getattr(pm.bds, mod), fn)
                item.prove("commb.%s is %s.%s" % (fn, mod, fn), [], z3.BoolVal(bool(same)),
                           replay=lambda m, fn=fn, mod=mod: (
                               H.real_driver("same_object", ["pyModeS.commb." + fn, "pyModeS.bds.%s.%s" % (mod, fn)])[1] is False,
                               {"name": fn}, "commb.%s is not bds.%s.%s" % (fn, mod, fn)))
        item.prove("__all__", [], z3.BoolVal(sorted(pm.commb.__all__) == sorted(names)),
                   replay=lambda m: (True, {"__all__": sorted(pm.commb.__all__)}, "commb.__all__ differs from the decoder list"))
        item.paths += 1

    elif name.startswith("cap17"):
        item.encoded("pyModeS.decoder.bds.bds17.cap17")
        g = item.params["group"]
        for pat in item.params["patterns"]:
            fields = [("DF", 5), ("HDR", 27)]
            for k in range(6):
                if k == g:
                    fields.append(("cap%d" % k, 4))
                else:
                    fields.append(("cap%d" % k, 4, (pat >> (20 - 4 * k)) & 0xF))
            fields += [("rest", 32), ("AP", 24)]
            fr2 = H.Frame(fields, prefix="p%06x_" % pat, case="upper")
            item.declare(fr2)
            item.hist_frame, item.hist_fr0 = fr2, None      # history mode: the earlier frame is a sibling of this one
            capbits = [b for k in range(6) for b in fr2["cap%d" % k].bits]

            def post(kind, v):
                if kind != "ret" or not isinstance(v, list) or not all(isinstance(x, str) for x in v):
                    return False
                want_names = ["BDS" + r for r in S.CAP17]
                pos = [want_names.index(x) if x in want_names else -1 for x in v]
                if -1 in pos or pos != sorted(set(pos)):
                    return False       # unknown register, duplicate or out of order
                return H.zand(*[(capbits[i].true() if want_names[i] in v else z3.Not(capbits[i].true()))
                                for i in range(24)])
            H.decide(item, "cap17", lambda: pm.commb.cap17(fr2.msg),
                     lambda c: H.real_call("pyModeS.commb.cap17", c["msg"]), lambda m, fr2=fr2: {"msg": fr2.concrete(m)}, post)
    else:
        raise H.HarnessError("unknown item " + name)
