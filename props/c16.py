"""C16 - stream framing is independent of how the byte stream is chunked (DESIGN.md section 5 C16)."""
import itertools
import random

import z3

from symx import core, harness as H
from symx.core import SymInt, SymStr
from symx.loader import load_repo

META = {
    "bounds": ["Beast binary: 2 frames (quick) / up to 3 frames (thorough) of type 2/3, interleaved type-1 and type-4 "
               "frames, followed by the start of a next frame; every timestamp / signal / message byte is a free 8-bit "
               "solver variable, constrained != 0x1A except at a chosen escape set E (|E| <= 1 quick, <= 2 thorough, over "
               "every byte position) where it IS 0x1A and is doubled on the wire; DF symbolic among the formats "
               "admissible for the frame length",
               "segmentations: every single cut (quick), every double cut and the all-1-byte segmentation (thorough)",
               "AVR raw: 2-3 frames '*hex;' with every hex digit symbolic (value and letter case), optional CR/LF; "
               "Skysense: 2-3 frames of 24 bytes, every payload / timestamp / level byte symbolic",
               "network source: up to 6 messages of either length with symbolic DF handed over in 1-3 calls"],
    "outside": ["more than 3 frames per stream, more than 2 escaped bytes per stream, more than 2 cuts (except the 1-byte "
                "segmentation)", "garbage between frames", "timestamps attached to the messages (time.time())"],
    "stubs": ["TcpClient built with object.__new__ (no socket); NetSource pipe/flag are recording fakes"],
    "assumptions": ["Mode-S Beast framing: <esc> type payload with <esc><esc> for a literal 0x1A; AVR '*...;'; Skysense "
                    "24-byte records starting with '$'"],
}

ESC = 0x1A
LONG_DF = [16, 17, 18, 19, 20, 21, 24]
SHORT_DF = [0, 4, 5, 11]


class Cell:
    """one payload byte of the stream: symbolic (8 bits), concrete, or with concrete top bits (first message byte: the
    downlink format is concrete per work item so that the reader's DF / length admission does not fork)"""

    def __init__(self, name=None, value=None, top=None):
        self.name = name
        if value is not None:
            self.val, self.var, self.fix = value, None, []
        else:
            self.var = z3.BitVec(name, 8)
            bits = [core.atom(z3.Extract(7 - i, 7 - i, self.var)) for i in range(8)]
            self.fix = []
            if top is not None:
                nb, v = top
                for i in range(nb):
                    bit = (v >> (nb - 1 - i)) & 1
                    bits[i] = core.ONE1 if bit else core.ZERO1
                self.fix = [z3.Extract(7, 8 - nb, self.var) == v]
            self.val = SymInt(bits=bits)

    def concrete(self, model):
        if self.var is None:
            return self.val
        return model.eval(self.var, model_completion=True).as_long()


def beast_frames(shape, tag, dfs):
    """shape: string over '2','3' (Mode S short/long), '1' (Mode A/C), '4' (status). Returns list of (type, [Cell])"""
    out = []
    for k, ch in enumerate(shape):
        n = {"1": 9, "2": 14, "3": 21, "4": 14}[ch]       # 6 timestamp + 1 signal + payload
        cells = []
        for j in range(n):
            top = (5, dfs[k]) if (j == 7 and ch in "23") else None
            cells.append(Cell("%sf%d_b%d" % (tag, k, j), top=top))
        out.append((ord(ch), cells))
    return out


def beast_wire(frames, E, tail):
    """serialise: returns (list of stream elements (int | SymInt), constraints, map frame index -> index of its last
    wire byte).  E: set of (frame, byte) positions whose value is 0x1A (doubled on the wire)."""
    wire, cons, last = [], [], {}
    for fi, (typ, cells) in enumerate(frames):
        wire += [ESC, typ]
        for bi, c in enumerate(cells):
            if (fi, bi) in E:
                cons.append(c.var == ESC)
                wire += [ESC, ESC]
            else:
                cons.append(c.var != ESC)
                wire.append(c.val)
        last[fi] = len(wire) - 1
    wire += tail
    return wire, cons, last


def df_constraint(cell0, allowed):
    return z3.Or([z3.LShR(cell0.var, 3) == d for d in allowed])


def split(wire, cuts):
    cuts = [0] + sorted(cuts) + [len(wire)]
    return [wire[a:b] for a, b in zip(cuts, cuts[1:]) if b > a]


def hexchars(cells):
    """expected message: two upper-case hex chars per byte"""
    out = []
    for c in cells:
        bits = c.val.bits if isinstance(c.val, SymInt) else None
        if bits is None:
            out += list("%02X" % c.val)
        else:
            bits = [core.ZERO1] * (8 - len(bits)) + list(bits)
            out += [core.HexChar(bits[0:4], True), core.HexChar(bits[4:8], True)]
    return out


def items(tier, seed):
    rnd = random.Random(seed)
    out = []
    shapes = ["33", "23", "32", "313", "343"] if tier == "quick" else ["33", "23", "32", "22", "333", "313", "343", "3413"]
    for sh in shapes:
        nbytes = {"1": 9, "2": 14, "3": 21, "4": 14}
        pos = [(fi, bi) for fi, ch in enumerate(sh) for bi in range(nbytes[ch])]
        esets = [()] + [(p,) for p in pos]
        if tier == "thorough" and len(sh) == 2:
            pairs = list(itertools.combinations(pos, 2))
            rnd.shuffle(pairs)
            esets += pairs[:60]
        if tier == "quick" and sh != "33":
            esets = [()] + [(p,) for p in pos if p[1] in (0, 5, 6, 7, nbytes[sh[p[0]]] - 1)]
        if tier == "quick" and sh == "33":
            pairs = list(itertools.combinations(pos, 2))
            rnd.shuffle(pairs)
            esets += pairs[:12] + [((0, 20), (1, 0)), ((0, 19), (0, 20)), ((1, 19), (1, 20))]
        for E in esets:
            out.append(("beast-%s-E%s" % (sh, "_".join("%d.%d" % p for p in E) or "none"),
                        {"fmt": "beast", "shape": sh, "E": [list(p) for p in E], "weight": len(sh)}))
    for sh in (["33"] if tier == "quick" else ["33", "23"]):
        out.append(("beastrssi-%s" % sh, {"fmt": "beast_rssi", "shape": sh, "E": []}))
        out.append(("beastrssi-%s-E0.6" % sh, {"fmt": "beast_rssi", "shape": sh, "E": [[0, 6]]}))
    for sh in (["LL", "SL"] if tier == "quick" else ["LL", "SL", "LS", "LLL", "LSL"]):
        for nl in ("", "\n", "\r\n"):
            out.append(("raw-%s-%s" % (sh, {"": "nonl", "\n": "lf", "\r\n": "crlf"}[nl]), {"fmt": "raw", "shape": sh, "nl": nl}))
    for sh in (["LL", "SL"] if tier == "quick" else ["LL", "SL", "LS", "LLL", "SLS"]):
        out.append(("skysense-%s" % sh, {"fmt": "skysense", "shape": sh}))
    out.append(("netsource", {"fmt": "net"}))
    return out


def cutsets(n, tier, rnd):
    cs = [()] + [(k,) for k in range(1, n)]
    if tier != "thorough":
        # a few double cuts (a 1-byte first piece, thirds) and delivery in 1-byte pieces
        cs += [(1, 2), (1, n // 2), (1, n - 1), (n // 3, 2 * n // 3), tuple(range(1, n))]
    if tier == "thorough":
        dbl = list(itertools.combinations(range(1, n), 2))
        rnd.shuffle(dbl)
        cs += dbl[:400]
        cs.append(tuple(range(1, n)))
    return cs


def client(pm, fmt):
    import pyModeS.extra.tcpclient as T
    c = object.__new__(T.TcpClient)
    c.buffer = []
    c.datatype = fmt
    c.current_msg = ""
    return c


def run_item(item):
    item.cross_check = True      # thorough tier: discharged obligations are re-decided by cvc5
    pm = load_repo()
    prm = item.params
    fmt = prm["fmt"]
    item.share_base = True
    rnd = random.Random(item.seed * 7919 + hash(item.name) % 1000)
    if fmt in ("beast", "beast_rssi"):
        return run_beast(item, pm, prm, rnd)
    if fmt == "raw":
        return run_raw(item, pm, prm, rnd)
    if fmt == "skysense":
        return run_skysense(item, pm, prm, rnd)
    return run_net(item, pm, prm, rnd)


def check_stream(item, label, wire, cuts, reader, expected, complete_at, getconc, replay_driver, allow_none=True):
    """run the reader over the chunked wire; the concatenated output must equal `expected` (list of lists of chars) at the
    end, and after every read it must be a prefix of `expected` made only of frames already completely received."""
    chunks = split(wire, cuts)

    def run():
        obj = reader()
        outs = []
        for ch in chunks:
            obj.buffer.extend(ch)
            r = obj.read()
            outs.append([m[0] for m in (r or [])])
        return outs
    paths = item.explore(run, maxpaths=2000)
    for p in paths:
        if len(cuts) <= 1 and (not cuts or cuts[0] % 5 == 0):
            # translator validation on a sample of the runs: the outputs per read predicted by the encoding equal the
            # real reader's on a solver-chosen stream
            item.validate(p, lambda c, _cuts=cuts: H.real_driver(replay_driver, {"wire": c["wire"], "cuts": list(_cuts),
                                                                                 "fmt": c["fmt"]}), getconc)
        if p.kind != "ret":
            claim = False
        else:
            cum, claim, received = [], [], 0
            ok = True
            for ch, out in zip(chunks, p.value):
                received += len(ch)
                cum += out
                if len(cum) > len(expected) or any(complete_at[j] >= received for j in range(len(cum))):
                    ok = False
                    break
            if ok and len(cum) == len(expected):
                cs = [H.str_eq(got, want) for got, want in zip(cum, expected)]
                claim = H.zand(*cs) if all(c is not False for c in cs) else False
            else:
                claim = False

        def replay(model, _cuts=cuts):
            conc = getconc(model)
            r = H.real_driver(replay_driver, {"wire": conc["wire"], "cuts": list(_cuts), "fmt": conc["fmt"]})
            bad = r[0] != "ret" or [m for o in r[1] for m in o] != conc["expected"]
            if not bad:      # prefix property
                cum, received = 0, 0
                for chn, o in zip(split(conc["wire"], _cuts), r[1]):
                    received += len(chn)
                    cum += len(o)
                    if any(complete_at[j] >= received for j in range(cum)):
                        bad = True
            return bad, {"wire": conc["wire"], "cuts": list(_cuts), "expected": conc["expected"]}, \
                "reader returned %r" % (H.jsonable(r[1:2]),), r
        item.prove(label, p.pc, claim, replay)
    return paths


def run_beast(item, pm, prm, rnd):
    rssi = prm["fmt"] == "beast_rssi"
    item.encoded("pyModeS.extra.tcpclient.TcpClient.read_beast_buffer" + ("_rssi_piaware" if rssi else ""))
    dfs = [rnd.choice(LONG_DF if ch == "3" else SHORT_DF) for ch in prm["shape"]]
    frames = beast_frames(prm["shape"], "", dfs)
    E = {tuple(p) for p in prm["E"]}
    if any(frames[fi][1][bi].fix for fi, bi in E):
        # the first message byte cannot be 0x1A together with the chosen DF unless DF == 3 (0x1A >> 3): skip the DF pin
        for fi, bi in E:
            c = frames[fi][1][bi]
            if c.fix:
                frames[fi][1][bi] = Cell(c.name + "e")
    wire, cons, last = beast_wire(frames, E, [ESC, 0x33])
    for typ, cells in frames:
        item.inputs.update({c.name: c.var for c in cells})
        for c in cells:
            item.assume(*c.fix)
    item.assume(*cons)
    expected, complete_at = [], []
    for fi, (typ, cells) in enumerate(frames):
        if typ == 0x32:
            expected.append(hexchars(cells[7:14]))
        elif typ == 0x33:
            expected.append(hexchars(cells[7:21]))
        else:
            continue
        complete_at.append(last[fi] + 2)       # the next frame's <esc> and type byte have arrived

    def reader():
        obj = client(pm, "beast")
        obj.read = obj.read_beast_buffer_rssi_piaware if rssi else obj.read_beast_buffer
        return obj

    def getconc(model):
        w = []
        for x in wire:
            w.append(x if isinstance(x, int) else H.concretise(model, x))
        exp = []
        for typ, cells in frames:
            if typ == 0x32:
                exp.append("".join("%02X" % c.concrete(model) for c in cells[7:14]))
            elif typ == 0x33:
                exp.append("".join("%02X" % c.concrete(model) for c in cells[7:21]))
        return {"wire": w, "expected": exp, "fmt": "beast_rssi" if rssi else "beast"}
    for cuts in cutsets(len(wire), item.tier, rnd):
        check_stream(item, "cut%s" % "_".join(map(str, cuts)), wire, cuts, reader, expected, complete_at, getconc, "stream_read")


# --------------------------------------------------------------------------- AVR raw

def raw_frame(tag, nhex, classes):
    """'*' + nhex symbolic hex digits + ';'.  Each digit has a concrete class (digit / upper-case / lower-case letter,
    from `classes`) and a symbolic value inside it; its byte is a SymInt whose chr() is that symbolic character."""
    cells, cons, chars, vars_ = [], [], [], {}
    for k in range(nhex):
        cl = classes[k]
        f = H.Field("%sx%d" % (tag, k), 4, "int")
        vars_[f.name] = f.var
        if cl == "d":
            cons += [f.var >= 0, f.var <= 9]
            code, upper = f.var + 48, True
        elif cl == "U":
            cons += [f.var >= 10, f.var <= 15]
            code, upper = f.var + 55, True
        else:
            cons += [f.var >= 10, f.var <= 15]
            code, upper = f.var + 87, False
        hc = core.HexChar(f.bits, upper)
        b = SymInt(it=code, lo=48, hi=102)
        b.tagchar = hc
        cells.append((b, hc, f))
    return cells, cons, vars_


def run_raw(item, pm, prm, rnd):
    item.encoded("pyModeS.extra.tcpclient.TcpClient.read_raw_buffer")
    wire, expected, complete_at, allcells = [], [], [], []
    for k, ch in enumerate(prm["shape"]):
        n = 28 if ch == "L" else 14
        classes = [rnd.choice("dddUl") for _ in range(n)]
        cells, cons, vars_ = raw_frame("r%d" % k, n, classes)
        item.inputs.update(vars_)
        item.assume(*cons)
        wire.append(42)
        wire += [c[0] for c in cells]
        wire.append(59)
        complete_at.append(len(wire) - 1)
        wire += [ord(c) for c in prm["nl"]]
        expected.append([c[1] for c in cells])
        allcells.append(cells)
    wire += [42]          # start of a next message

    def reader():
        obj = client(pm, "raw")
        obj.read = obj.read_raw_buffer
        return obj

    def getconc(model):
        w, exp = [], []
        for x in wire:
            w.append(x if isinstance(x, int) else H.concretise(model, x))
        for cells in allcells:
            exp.append("".join(H.concretise(model, SymStr([c[1]])) for c in cells))
        return {"wire": w, "expected": exp, "fmt": "raw"}
    for cuts in cutsets(len(wire), item.tier, rnd):
        check_stream(item, "cut%s" % "_".join(map(str, cuts)), wire, cuts, reader, expected, complete_at, getconc, "stream_read")


# --------------------------------------------------------------------------- Skysense

def run_skysense(item, pm, prm, rnd):
    item.encoded("pyModeS.extra.tcpclient.TcpClient.read_skysense_buffer")
    wire, expected, complete_at, frames = [], [], [], []
    for k, ch in enumerate(prm["shape"]):
        cells = []
        for j in range(23):
            if j == 0:
                cells.append(Cell("s%d_b%d" % (k, j), top=(1, 1 if ch == "L" else 0)))
            elif ch == "S" and 7 <= j < 14:
                cells.append(Cell(value=0))
            else:
                cells.append(Cell("s%d_b%d" % (k, j)))
        for c in cells:
            if c.var is not None:
                item.inputs[c.name] = c.var
                item.assume(*c.fix)
        wire.append(0x24)
        wire += [c.val for c in cells]
        complete_at.append(len(wire))            # the next record's '$' has arrived
        expected.append(hexchars(cells[0:14] if ch == "L" else cells[0:7]))
        frames.append((ch, cells))
    wire.append(0x24)

    def reader():
        obj = client(pm, "skysense")
        obj.read = obj.read_skysense_buffer
        return obj

    def getconc(model):
        w = [x if isinstance(x, int) else H.concretise(model, x) for x in wire]
        exp = ["".join("%02X" % c.concrete(model) for c in (cells[0:14] if ch == "L" else cells[0:7])) for ch, cells in frames]
        return {"wire": w, "expected": exp, "fmt": "skysense"}
    for cuts in cutsets(len(wire), item.tier, rnd):
        check_stream(item, "cut%s" % "_".join(map(str, cuts)), wire, cuts, reader, expected, complete_at, getconc, "stream_read")


# --------------------------------------------------------------------------- network source

class _Flag:
    value = False


class _Pipe:
    def __init__(self):
        self.sent = []

    def send(self, obj):
        self.sent.append({k: list(v) for k, v in obj.items()})


def run_net(item, pm, prm, rnd):
    """NetSource.handle_messages: every long DF17/18 and DF20/21 message is forwarded exactly once and in order (sent
    batches followed by what is still buffered == the filtered input)"""
    import pyModeS.streamer.source as S
    item.encoded("pyModeS.streamer.source.NetSource.handle_messages")
    # every sequence of message kinds of length <= 4 (quick) / 5 (thorough) over {ADS-B, Comm-B, short/other} and every
    # way of splitting it into consecutive handle_messages() calls
    import itertools as _it
    configs = []
    maxlen = 4 if item.tier == "quick" else 5
    for n in range(1, maxlen + 1):
        for kinds in _it.product(["adsb", "commb", "short"], repeat=n):
            if "adsb" not in kinds and "commb" not in kinds:
                continue
            for mask in range(1 << (n - 1)):
                cutpos = [k + 1 for k in range(n - 1) if (mask >> k) & 1]
                configs.append((["other" if (k == "short" and (i + n) % 2) else k for i, k in enumerate(kinds)], cutpos))
    frame_pool = {}
    for ci, (kinds, cutpos) in enumerate(configs):
        msgs = []
        for mi, kind in enumerate(kinds):
            df = {"adsb": rnd.choice([17, 18]), "commb": rnd.choice([20, 21]), "other": rnd.choice([16, 19, 24]),
                  "short": rnd.choice([0, 4, 5, 11, 17, 20])}[kind]
            nb = 56 if kind == "short" else 112
            key = (kind, df, mi)
            fr = frame_pool.get(key)
            if fr is None:
                fr = frame_pool[key] = H.Frame([("DF", 5, df), ("REST", nb - 5)], prefix="n%s%d_%d_" % (kind[0], df, mi), case="upper")
                item.declare(fr)
            msgs.append((kind, fr))
        calls = [msgs[a:b] for a, b in zip([0] + cutpos, cutpos + [len(msgs)])]

        def run():
            obj = object.__new__(S.NetSource)
            obj.reset_local_buffer()
            obj.stop_flag = _Flag()
            obj.raw_pipe_in = _Pipe()
            for k, call in enumerate(calls):
                obj.handle_messages([(fr.msg, 1000.0 + 10 * k + j) for j, (kind, fr) in enumerate(call)])
            sent = obj.raw_pipe_in.sent
            return ([m for b in sent for m in b["adsb_msg"]] + list(obj.local_buffer_adsb_msg),
                    [m for b in sent for m in b["commb_msg"]] + list(obj.local_buffer_commb_msg),
                    [t for b in sent for t in b["adsb_ts"]] + list(obj.local_buffer_adsb_ts),
                    [t for b in sent for t in b["commb_ts"]] + list(obj.local_buffer_commb_ts))
        want_a = [fr for kind, fr in msgs if kind == "adsb"]
        want_c = [fr for kind, fr in msgs if kind == "commb"]
        tmap = {}
        for k, call in enumerate(calls):
            for j, (kind, fr) in enumerate(call):
                tmap[id(fr)] = 1000.0 + 10 * k + j
        paths = item.explore(run)
        for p in paths:
            if p.kind != "ret":
                claim = False
            else:
                a, c, ta, tc_ = p.value
                if len(a) != len(want_a) or len(c) != len(want_c):
                    claim = False
                else:
                    cs = [H.str_eq(g, core.chars_of(w.msg)) for g, w in zip(a, want_a)] + \
                         [H.str_eq(g, core.chars_of(w.msg)) for g, w in zip(c, want_c)]
                    ok_t = ta == [tmap[id(w)] for w in want_a] and tc_ == [tmap[id(w)] for w in want_c]
                    claim = H.zand(ok_t, *cs) if all(x is not False for x in cs) else False

            def replay(model):
                arg = {"calls": [[[fr.concrete(model), tmap[id(fr)]] for kind, fr in call] for call in calls]}
                r = H.real_driver("netsource_feed", arg)
                wa = [fr.concrete(model) for fr in want_a]
                wc = [fr.concrete(model) for fr in want_c]
                bad = r[0] != "ret" or list(r[1][0]) != wa or list(r[1][1]) != wc
                return bad, arg, "forwarded %r" % (H.jsonable(r[1:2]),), r
            item.prove("net%d" % ci, p.pc, claim, replay)
