"""C10 - aircraft identification: callsign and category round-trip (DESIGN.md section 5 C10)."""
import z3

from symx import core, harness as H
from symx.core import SymInt, TabChar
from symx.loader import load_repo

META = {
    "bounds": ["eight independent 6-bit character codes constrained to the 37 legal values each (all 37^8 "
               "identifications), category and every other frame bit free, TC symbolic over 0..31, DF over 0..31"],
    "outside": ["behaviour on illegal character codes (only is20's veto is covered, under C12)"],
    "stubs": [],
    "assumptions": ["Annex 10 Vol IV 3.1.2.9.1.2 six-bit alphabet: 1-26 = A-Z, 32 = space, 48-57 = 0-9"],
}

# the oracle's own table, built from the rule (not copied from the implementation)
ALPHABET = ["#"] * 64
for _i in range(1, 27):
    ALPHABET[_i] = chr(64 + _i)
ALPHABET[32] = "_"
for _i in range(10):
    ALPHABET[48 + _i] = str(_i)
ALPHABET = "".join(ALPHABET)
LEGAL = [i for i, c in enumerate(ALPHABET) if c != "#"]
assert len(LEGAL) == 37


def items(tier, seed):
    return [("callsign", {}), ("category", {}), ("cs20", {})]


def run_item(item):
    item.cross_check = True      # thorough tier: discharged obligations are re-decided by cvc5
    pm = load_repo()
    name = item.name
    chars = [("c%d" % i, 6) for i in range(1, 9)]
    if name in ("callsign", "category"):
        fr = H.Frame([("DF", 5), ("CA", 3), ("ICAO", 24), ("TC", 5), ("CAT", 3)] + chars + [("PI", 24)], case="mixed")
    else:
        fr = H.Frame([("DF", 5), ("hdr", 27), ("BDS", 8)] + chars + [("AP", 24)], case="mixed")
    item.declare(fr)
    codes = [fr["c%d" % i] for i in range(1, 9)]
    legal = [z3.Or([c.int() == v for v in LEGAL]) for c in codes]
    want = [TabChar(ALPHABET, c.sym()) for c in codes]
    conc = lambda m: {"msg": fr.concrete(m)}
    if name == "cs20":
        item.encoded("pyModeS.decoder.bds.bds20.cs20")
        item.assume(*legal)
        H.decide(item, "commb.cs20", lambda: pm.commb.cs20(fr.msg), lambda c: H.real_call("pyModeS.commb.cs20", c["msg"]),
                 conc, lambda k, v: k == "ret" and H.str_eq(v, want))
        item.sat_witness("legal", [])
        return
    df, tc = fr["DF"].int(), fr["TC"].int()
    dom = z3.And(z3.Or(df == 17, df == 18), tc >= 1, tc <= 4)
    if name == "callsign":
        item.encoded("pyModeS.decoder.bds.bds08.callsign", "pyModeS.py_common.typecode")
        item.assume(*legal)

        def post(k, v):
            if k == "exc":
                return H.zand(v == "RuntimeError", z3.Not(dom))
            return H.zand(dom, H.str_eq(v, want))
        H.decide(item, "adsb.callsign", lambda: pm.adsb.callsign(fr.msg),
                 lambda c: H.real_call("pyModeS.adsb.callsign", c["msg"]), conc, post)
    else:
        item.encoded("pyModeS.decoder.bds.bds08.category")

        def post(k, v):
            if k == "exc":
                return H.zand(v == "RuntimeError", z3.Not(dom))
            return H.zand(dom, H.int_eq(v, fr["CAT"].int()))
        H.decide(item, "adsb.category", lambda: pm.adsb.category(fr.msg),
                 lambda c: H.real_call("pyModeS.adsb.category", c["msg"]), conc, post)
    item.sat_witness("dom", [dom])
