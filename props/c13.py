"""C13 - ADS-B status, intent and quality indicators, TC 19/28/29/31 (DESIGN.md section 5 C13)."""
import z3

from symx import core, harness as H
from symx.loader import load_repo

META = {
    "bounds": ["one 112-bit frame with DF, CA, address, all 56 ME bits, parity and hex case symbolic per decoder; "
               "TC29 subtype restricted to 0 and 1 (2 and 3 are reserved); version argument of sil() in {None,0,1,2}; "
               "NIC supplements in {0,1}",
               "look-up monotonicity: two symbolic frames (two-copy) through the real nuc_p/nic_v1/nic_v2/nac_p/nuc_v/"
               "nac_v/sil"],
    "outside": ["TC29 subtype 2/3 (reserved; only totality under C14)", "the Heading/Track label of target_angle "
                "(bit 37 polarity not asserted)", "textual source labels other than those listed in the docstrings"],
    "stubs": [],
    "assumptions": ["DO-260B 2.2.3.2.7.1 (TSS subtype 1), DO-260A TSS subtype 0 layout, 2.2.3.2.7.2 (operational "
                    "status), 2.2.3.2.7.8 (aircraft status subtype 1) as transcribed in this file",
                    "selected heading = sign*180 + N*180/256 (9-bit angular weighted binary)"],
}

SRC_ALT = {1: "MCP/FCU", 2: "Holding mode", 3: "FMS/RNAV"}
SRC_ANG = {1: "MCP/FCU", 2: "Autopilot mode", 3: "FMS/RNAV"}
TC29 = ["selected_altitude", "target_altitude", "vertical_mode", "horizontal_mode", "selected_heading", "target_angle",
        "baro_pressure_setting", "autopilot", "vnav_mode", "altitude_hold_mode", "approach_mode", "lnav_mode",
        "tcas_operational", "tcas_ra", "emergency_status"]
V2_ONLY = {"selected_altitude", "selected_heading", "baro_pressure_setting", "autopilot", "vnav_mode",
           "altitude_hold_mode", "approach_mode", "lnav_mode"}
V1_ONLY = {"target_altitude", "vertical_mode", "horizontal_mode", "target_angle", "tcas_ra", "emergency_status"}


# DO-260B: NUCp / NIC by type code (2.2.3.2.7.2.6, Tables 2-69 / 2-70 / N-4); for type codes with several NIC rows the
# supplement pair (NIC supplement-A, supplement-B for airborne / supplement-C for surface) selects the row.  Only the
# category numbers are asserted, not the containment radii.
NUCP_BY_TC = {5: 9, 6: 8, 7: 7, 8: 6, 9: 9, 10: 8, 11: 7, 12: 6, 13: 5, 14: 4, 15: 3, 16: 2, 17: 1, 18: 0, 20: 9, 21: 8, 22: 0}
NIC_SET_BY_TC = {5: [11], 6: [10], 7: [9, 8], 8: [7, 6, 0], 9: [11], 10: [10], 11: [9, 8], 12: [7], 13: [6], 14: [5],
                 15: [4], 16: [3, 2], 17: [1], 18: [0], 20: [11], 21: [10], 22: [0]}
NIC_V2_ROWS = {(5, (0, 0)): 11, (6, (0, 0)): 10, (7, (1, 0)): 9, (7, (0, 0)): 8, (8, (1, 1)): 7, (8, (1, 0)): 6,
               (8, (0, 1)): 6, (8, (0, 0)): 0, (9, (0, 0)): 11, (10, (0, 0)): 10, (11, (1, 1)): 9, (11, (0, 0)): 8,
               (12, (0, 0)): 7, (13, (0, 1)): 6, (13, (0, 0)): 6, (13, (1, 1)): 6, (14, (0, 0)): 5, (15, (0, 0)): 4,
               (16, (1, 1)): 3, (16, (0, 0)): 2, (17, (0, 0)): 1, (18, (0, 0)): 0, (20, (0, 0)): 11, (21, (0, 0)): 10,
               (22, (0, 0)): 0}


def items(tier, seed):
    out = [("tc29-" + f, {"f": f}) for f in TC29]
    out += [("tc28-is_emergency", {}), ("tc28-emergency_state", {}), ("version", {}), ("nic_s", {}), ("nic_a_c", {}),
            ("nic_b", {}), ("nac_p", {}), ("nuc_v", {}), ("nac_v", {})]
    out += [("sil-v%s" % v, {"version": v}) for v in (None, 0, 1, 2)]
    out += [("nuc_p", {}), ("nic_v1-s0", {"s": 0}), ("nic_v1-s1", {"s": 1})]
    out += [("nic_v2-%d%d" % (a, b), {"a": a, "b": b}) for a in (0, 1) for b in (0, 1)]     # b = NICbc (one bit used)
    out += [("mono-nuc_p", {}), ("mono-nuc_v", {}), ("mono-nac_v", {}), ("mono-sil", {})]
    out += [("mono-nac_p-%d-%d-%d" % (a, b, h), {"tcs": [a, b], "half": h}) for a in (29, 31) for b in (29, 31) for h in (0, 1)]
    # history mode (harness.decide): the same call on an earlier frame with another ME field first
    out += [(n + "@after:ME", dict(prm)) for n, prm in out if n in ("nuc_p", "nuc_v", "nac_v", "nic_b", "tc28-emergency_state", "version")]
    v1 = [(0,), (1,)]
    v2 = [(a, b) for a in (0, 1) for b in (0, 1)]
    for i, x in enumerate(v1):
        for j, y in enumerate(v1):
            out.append(("mono-nic_v1-%d%d" % (i, j), {"pairs": [[list(x), list(y)]]}))
    for i, x in enumerate(v2):
        for j, y in enumerate(v2):
            if tier == "thorough" or i == j or (i, j) in ((0, 3), (3, 0), (1, 2)):
                out.append(("mono-nic_v2-%d%d" % (i, j), {"pairs": [[list(x), list(y)]]}))
    return out


def frame(prefix=""):
    return H.Frame([("DF", 5), ("CA", 3), ("ICAO", 24), ("ME", 56), ("PI", 24)], prefix=prefix, case="mixed")


class ME:
    """1-based ME bit access"""

    def __init__(self, fr):
        self.b = fr["ME"].bits
        self.df = fr["DF"].int()

    def bit(self, i):
        return self.b[i - 1].true()

    def f(self, a, b):
        return core.bits_to_int(self.b[a - 1:b])

    def adsb(self):
        return z3.Or(self.df == 17, self.df == 18)

    def tc(self):
        return self.f(1, 5)


def none_or(v, cond_none, claim_val):
    if v is None:
        return cond_none
    return H.zand(z3.Not(cond_none), claim_val(v))


def label_is(v, table, idx):
    """v is a concrete label; it must be table[idx]"""
    if not isinstance(v, str):
        return False
    ks = [k for k, s in table.items() if s == v]
    return z3.Or([idx == k for k in ks]) if ks else False


def boolval(v, term):
    if isinstance(v, bool):
        return term if v else z3.Not(term)
    if isinstance(v, core.SymBool):
        return v.t == term
    return False


def tc29_claim(fn, me, v):
    """claim for the value returned by TC29 decoder fn (subtype already known to be in its domain)"""
    st1 = me.f(6, 7) == 1
    if fn == "selected_altitude":
        N = me.f(10, 20)
        if not isinstance(v, tuple) or len(v) != 2:
            return False
        if v[0] is None:
            return H.zand(N == 0, v[1] == "N/A")
        return H.zand(N != 0, H.int_eq(v[0], (N - 1) * 32),
                      z3.If(me.bit(9), v[1] == "FMS", v[1] == "MCP/FCU") if isinstance(v[1], str) else False)
    if fn == "target_altitude":
        A = me.f(8, 9)
        if not isinstance(v, tuple) or len(v) != 3:
            return False
        if v[0] is None:
            return H.zand(A == 0, v[1] == "N/A")
        return H.zand(A != 0, H.int_eq(v[0], -1000 + 100 * me.f(16, 25)), label_is(v[1], SRC_ALT, A),
                      z3.If(me.bit(10), v[2] == "MSL", v[2] == "FL") if isinstance(v[2], str) else False)
    if fn == "vertical_mode":
        return none_or(v, me.f(14, 15) == 0, lambda x: H.int_eq(x, me.f(14, 15)))
    if fn == "horizontal_mode":
        return none_or(v, me.f(38, 39) == 0, lambda x: H.int_eq(x, me.f(38, 39)))
    if fn == "selected_heading":
        want = z3.ToReal(z3.If(me.bit(31), 180, 0)) + z3.ToReal(me.f(32, 39)) * 180 / 256
        return none_or(v, z3.Not(me.bit(30)), lambda x: H.real_close(x, want, 1e-9))
    if fn == "target_angle":
        A = me.f(26, 27)
        if not isinstance(v, tuple) or len(v) != 3:
            return False
        if v[0] is None:
            return H.zand(A == 0, v[2] == "N/A")
        return H.zand(A != 0, H.int_eq(v[0], me.f(28, 36)), label_is(v[2], SRC_ANG, A))
    if fn == "baro_pressure_setting":
        N = me.f(21, 29)
        return none_or(v, N == 0, lambda x: H.real_close(x, 800 + z3.ToReal(N - 1) * 8 / 10, 1e-6))
    mode_bits = {"autopilot": 48, "vnav_mode": 49, "altitude_hold_mode": 50, "approach_mode": 52, "lnav_mode": 54}
    if fn in mode_bits:
        return none_or(v, z3.Not(me.bit(47)), lambda x: boolval(x, me.bit(mode_bits[fn])))
    if fn == "tcas_operational":
        return boolval(v, z3.If(st1, me.bit(53), z3.Not(me.bit(52))))
    if fn == "tcas_ra":
        return boolval(v, me.bit(53))
    if fn == "emergency_status":
        return H.int_eq(v, me.f(54, 56))
    raise H.HarnessError(fn)


def lookup_vals(pm, which, ret):
    """category and the bound(s) that must not get looser: (category, [bounds])"""
    if which == "nuc_p":
        return ret[0], [ret[1], ret[2]]
    if which == "nic_v1":
        return ret[0], [ret[1]]
    if which == "nic_v2":
        return ret[0], [ret[1]]
    if which in ("nac_p", "nuc_v", "nac_v"):
        return ret[0], [ret[1], ret[2]]
    raise H.HarnessError(which)


def run_item(item):
    item.cross_check = True      # thorough tier: discharged obligations are re-decided by cvc5
    pm = load_repo()
    name, prm = item.name, item.params
    fr = frame()
    item.declare(fr)
    me = ME(fr)
    conc = lambda m: {"msg": fr.concrete(m)}

    def run(path, f, args, dom, claim, extra_exc=None, cmp=None):
        def post(kind, v):
            if kind == "exc":
                return H.zand(v == "RuntimeError", z3.Not(dom) if extra_exc is None else z3.Or(z3.Not(dom), extra_exc))
            ok = dom if extra_exc is None else z3.And(dom, z3.Not(extra_exc))
            return H.zand(ok, claim(v))
        H.decide(item, path.split("pyModeS.")[1], lambda: f(fr.msg, *args),
                 lambda c: H.real_call(path, c["msg"], *args), conc, post, cmp=cmp)
        item.sat_witness("domain", [dom])

    if name.startswith("tc29-"):
        fn = prm["f"]
        item.encoded("pyModeS.decoder.bds.bds62." + fn)
        item.assume(me.f(6, 7) <= 1)     # subtype 0 or 1
        dom = z3.And(me.adsb(), me.tc() == 29)
        st = me.f(6, 7)
        wrong_version = (st == 0) if fn in V2_ONLY else ((st == 1) if fn in V1_ONLY else None)
        run("pyModeS.adsb." + fn, getattr(pm.adsb, fn), (), dom, lambda v: tc29_claim(fn, me, v), wrong_version)

    elif name == "tc28-is_emergency":
        item.encoded("pyModeS.decoder.bds.bds61.is_emergency")
        dom = z3.And(me.adsb(), me.tc() == 28)
        st = me.f(6, 8)
        run("pyModeS.adsb.is_emergency", pm.adsb.is_emergency, (), dom,
            lambda v: boolval(v, z3.And(st == 1, me.f(9, 11) != 0)), st == 2)

    elif name == "tc28-emergency_state":
        item.encoded("pyModeS.decoder.bds.bds61.emergency_state")
        item.assume(me.adsb(), me.tc() == 28)      # the missing type guard is C14's business
        st = me.f(6, 8)
        run("pyModeS.adsb.emergency_state", pm.adsb.emergency_state, (), z3.BoolVal(True),
            lambda v: H.int_eq(v, me.f(9, 11)), st == 2)

    elif name in ("version", "nic_s", "nic_a_c"):
        item.encoded("pyModeS.decoder.adsb." + name)
        dom = z3.And(me.adsb(), me.tc() == 31)
        claims = {"version": lambda v: H.int_eq(v, me.f(41, 43)),
                  "nic_s": lambda v: H.int_eq(v, me.f(44, 44)),
                  "nic_a_c": lambda v: isinstance(v, tuple) and len(v) == 2 and H.zand(H.int_eq(v[0], me.f(44, 44)),
                                                                                     H.int_eq(v[1], me.f(20, 20)))}
        run("pyModeS.adsb." + name, getattr(pm.adsb, name), (), dom, claims[name])

    elif name == "nic_b":
        item.encoded("pyModeS.decoder.adsb.nic_b")
        dom = z3.And(me.adsb(), me.tc() >= 9, me.tc() <= 18)
        run("pyModeS.adsb.nic_b", pm.adsb.nic_b, (), dom, lambda v: H.int_eq(v, me.f(8, 8)))

    elif name in ("nac_p",) or name.startswith("sil-"):
        tc = me.tc()
        dom = z3.And(me.adsb(), z3.Or(tc == 29, tc == 31))
        if name == "nac_p":
            item.encoded("pyModeS.decoder.adsb.nac_p")
            cat = z3.If(tc == 29, me.f(40, 43), me.f(45, 48))
            run("pyModeS.adsb.nac_p", pm.adsb.nac_p, (), dom,
                lambda v: isinstance(v, tuple) and len(v) == 3 and H.int_eq(v[0], cat))
        else:
            item.encoded("pyModeS.decoder.adsb.sil")
            ver = prm["version"]
            cat = z3.If(tc == 29, me.f(45, 46), me.f(51, 52))
            sup = z3.If(tc == 29, me.bit(8), me.bit(55))

            def claim(v):
                if not isinstance(v, tuple) or len(v) != 3 or not isinstance(v[2], str):
                    return False
                pe = {3: 1e-7, 2: 1e-5, 1: 1e-3, 0: None}     # DO-260B table 2-72 (per hour / per sample)
                ks = [k for k, x in pe.items() if x == v[0]]
                c = z3.Or([cat == k for k in ks]) if ks else False
                if ver == 2:
                    c = H.zand(c, z3.If(sup, v[2] == "sample", v[2] == "hour"))
                else:
                    c = H.zand(c, v[2] == "unknown")
                return c
            run("pyModeS.adsb.sil", pm.adsb.sil, (ver,), dom, claim)

    elif name in ("nuc_v", "nac_v"):
        item.encoded("pyModeS.decoder.adsb." + name)
        dom = z3.And(me.adsb(), me.tc() == 19)
        run("pyModeS.adsb." + name, getattr(pm.adsb, name), (), dom,
            lambda v: isinstance(v, tuple) and len(v) == 3 and H.int_eq(v[0], me.f(11, 13)))

    elif name == "nuc_p" or name.startswith("nic_v1") or name.startswith("nic_v2"):
        # totality on the documented domain: every TC in 5-8, 9-18, 20-22 x supplements returns (no KeyError)
        tc = me.tc()
        dom = z3.And(me.adsb(), z3.Or(z3.And(tc >= 5, tc <= 18), z3.And(tc >= 20, tc <= 22)))
        item.assume(z3.Not(z3.And(me.adsb(), tc == 19)))      # TC19 falls outside the documented domain: C14
        def table(tab):
            """z3: value looked up by type code (Int term)"""
            t = z3.IntVal(-1)
            for k, v in tab.items():
                t = z3.If(tc == k, z3.IntVal(v), t)
            return t

        def in_set(x, tab):
            """z3: (tc, x) is an allowed (type code, category) pair"""
            return z3.Or([z3.And(tc == k, z3.Or([H.to_int_term(x) == c for c in cs])) for k, cs in tab.items()])
        if name == "nuc_p":
            item.encoded("pyModeS.decoder.adsb.nuc_p")
            run("pyModeS.adsb.nuc_p", pm.adsb.nuc_p, (), dom,
                lambda v: H.zand(isinstance(v, tuple) and len(v) == 4, H.int_eq(v[0], table(NUCP_BY_TC)),
                                 # vertical containment exists for GNSS height only: 4 m (TC20), 15 m (TC21)
                                 (z3.And(tc != 20, tc != 21) if v[3] is None else
                                  z3.Or(z3.And(tc == 20, H.int_eq(v[3], 4)), z3.And(tc == 21, H.int_eq(v[3], 15)))
                                  if H.is_int_like(v[3]) else False))
                if isinstance(v, tuple) and len(v) == 4 else False)
        elif name.startswith("nic_v1"):
            item.encoded("pyModeS.decoder.adsb.nic_v1")
            run("pyModeS.adsb.nic_v1", pm.adsb.nic_v1, (prm["s"],), dom,
                lambda v: H.zand(isinstance(v, tuple) and len(v) == 3,
                                 in_set(v[0], NIC_SET_BY_TC) if isinstance(v, tuple) and H.is_int_like(v[0]) else False))
        else:
            item.encoded("pyModeS.decoder.adsb.nic_v2")
            a, b = prm["a"], prm["b"]

            def claim_v2(v):
                if not (isinstance(v, tuple) and len(v) == 2):
                    return False
                gnss = z3.And(tc >= 20, tc <= 22)
                defined = z3.Or([tc == k for (k, sup) in NIC_V2_ROWS if sup == (a, b)] + [gnss])
                want = z3.IntVal(-1)
                for (k, sup), nic in NIC_V2_ROWS.items():
                    if sup == (a, b):
                        want = z3.If(tc == k, z3.IntVal(nic), want)
                for k in (20, 21, 22):
                    want = z3.If(tc == k, z3.IntVal(NIC_V2_ROWS[(k, (0, 0))]), want)
                if v[0] is None:
                    return z3.Not(defined)          # (None, None) only for combinations DO-260B does not define
                if not H.is_int_like(v[0]):
                    return False
                return z3.If(defined, H.to_int_term(v[0]) == want, in_set(v[0], NIC_SET_BY_TC))
            run("pyModeS.adsb.nic_v2", pm.adsb.nic_v2, (a, b), dom, claim_v2)

    elif name.startswith("mono-"):
        which = name[5:].split("-")[0]
        item.encoded("pyModeS.decoder.adsb." + which, "pyModeS.decoder.uncertainty")
        fb = frame("b_")
        item.declare(fb)
        meb = ME(fb)
        doms = {"nuc_p": lambda m: z3.And(m.adsb(), z3.Or(z3.And(m.tc() >= 5, m.tc() <= 18), z3.And(m.tc() >= 20, m.tc() <= 22))),
                "nic_v1": None, "nic_v2": None,
                "nac_p": lambda m: z3.And(m.adsb(), z3.Or(m.tc() == 29, m.tc() == 31)),
                "nuc_v": lambda m: z3.And(m.adsb(), m.tc() == 19), "nac_v": lambda m: z3.And(m.adsb(), m.tc() == 19),
                "sil": lambda m: z3.And(m.adsb(), z3.Or(m.tc() == 29, m.tc() == 31))}
        doms["nic_v1"] = doms["nic_v2"] = doms["nuc_p"]
        item.assume(doms[which](me), doms[which](meb))
        if "tcs" in prm:
            item.assume(me.tc() == prm["tcs"][0], meb.tc() == prm["tcs"][1])
            cat_a = z3.If(me.tc() == 29, me.f(40, 43), me.f(45, 48))
            item.assume(cat_a < 8 if prm["half"] == 0 else cat_a >= 8)
        argsets = {"sil": [(2,)]}.get(which, [()])
        pairs = [(tuple(a), tuple(b)) for a, b in prm["pairs"]] if "pairs" in prm else \
            [(a, b) for a in argsets for b in argsets]
        f = getattr(pm.adsb, which)
        for args_a, args_b in pairs:
            if True:
                def two():
                    ra, rb = f(fr.msg, *args_a), f(fb.msg, *args_b)
                    fix = lambda r: tuple(core.concretize(x) if isinstance(x, core.SymInt) else x for x in r)
                    return fix(ra), fix(rb)

                def real(c):
                    ra = H.real_call("pyModeS.adsb." + which, c["a"], *args_a)
                    rb = H.real_call("pyModeS.adsb." + which, c["b"], *args_b)
                    if ra[0] != "ret" or rb[0] != "ret":
                        return ra if ra[0] != "ret" else rb
                    return ("ret", (ra[1], rb[1]))

                def post(kind, v):
                    if kind != "ret":
                        return False
                    ra, rb = v
                    if which == "sil":
                        ca, ba = None, [ra[0], ra[1]]
                        cb, bb = None, [rb[0], rb[1]]
                        # SIL: the two probabilities must be ordered consistently (smaller PE_RCu <=> smaller PE_VPL)
                        if None in ba or None in bb:
                            return True
                        return (ba[0] <= bb[0]) == (ba[1] <= bb[1]) or ba[0] == bb[0]
                    ca, ba = lookup_vals(pm, which, ra)
                    cb, bb = lookup_vals(pm, which, rb)
                    if ca is None or cb is None:
                        return True
                    # categories are concrete on each path (dict look-ups fork); higher category => bound not looser
                    ca_, cb_ = ca, cb
                    if not (ca_ < cb_):
                        return True
                    for x, y in zip(ba, bb):
                        if x is None or y is None:
                            continue       # NA = 'no bound available' (e.g. supplement not applicable): not a bound
                        if y > x:
                            return False
                    return True
                H.decide(item, "mono:%s%r%r" % (which, args_a, args_b), two, real,
                         lambda m: {"a": fr.concrete(m), "b": fb.concrete(m)}, post, validate=False)
    else:
        raise H.HarnessError("unknown item " + name)
