"""Shared pieces of the CPR checks C03 / C04 / C05 / C17."""
from fractions import Fraction

import z3

from spec import cpr as S
from symx import core, harness as H, nl
from symx.core import SymReal
from symx.loader import load_repo

EPS = Fraction(1, 10 ** 7)          # sample-robustness margin (degrees / zone fractions), see harness.Item.robust
TOL = Fraction(1, 10 ** 9)          # binary64 slack when comparing a result with the exact rational it should be

BANDS_QUICK = [1, 2, 3, 4, 17, 30, 45, 57, 58, 59]


def bands(tier, seed, quick=None):
    if tier == "thorough":
        return list(range(1, 60))
    import random
    rnd = random.Random(seed)
    base = list(quick or BANDS_QUICK)
    extra = [n for n in range(5, 57) if n not in base]
    rnd.shuffle(extra)
    return sorted(set(base + extra[:2]))


def pos_frame(prefix="", F=None, tc=None, case="upper"):
    """DF17/18 position frame (airborne BDS 0,5 and surface BDS 0,6 share the F / LAT / LON layout)"""
    spec = [("DF", 5), ("CA", 3), ("ICAO", 24),
            ("TC", 5) if tc is None else ("TC", 5, tc),
            ("X", 15), ("T", 1),
            ("F", 1) if F is None else ("F", 1, F),
            ("LAT", 17, "int"), ("LON", 17, "int"), ("PI", 24)]
    return H.Frame(spec, prefix=prefix, case=case)


def tc_class(fr, kind):
    tc = fr["TC"].int()
    if kind == "surf":
        return z3.And(tc >= 5, tc <= 8)
    if kind == "baro":
        return z3.And(tc >= 9, tc <= 18)
    if kind == "gnss":
        return z3.And(tc >= 20, tc <= 22)
    return z3.Or(z3.And(tc >= 9, tc <= 18), z3.And(tc >= 20, tc <= 22))


def adsb_df(fr):
    return z3.Or(fr["DF"].int() == 17, fr["DF"].int() == 18)


def setup(item):
    pm = load_repo()
    st = nl.install(pm)
    item.robust_eps = EPS
    return pm, st


def result_claim(v, enc, strict_range=None):
    """the decoder's (lat, lon) lies within one CPR quantisation step of the true (encoded) position, longitude compared
    around the circle -- exactly what the properties state (a decoder that rounds its output by less than the slack
    between half a step and a step is still correct)"""
    if not isinstance(v, tuple) or len(v) != 2 or not H.is_num_like(v[0]) or not H.is_num_like(v[1]):
        return False
    lo = H.to_real_term(v[1])
    cs = [H.real_close(v[0], enc.lat, enc.step_lat), S.circ_close(lo, enc.lon, enc.step_lon)]
    if strict_range is not None:
        a, b = strict_range
        cs += [lo >= S.Q(a - TOL), lo <= S.Q(b + TOL)]
    return z3.And(cs)


def fval(model, t):
    return float(H.frac_of_z3(H.ev_term(model, t)))
