"""C06 - cprNL equals the DO-260B longitude-zone function (DESIGN.md section 5 C06).

Decided by the solver (QF_FP + UF, every binary64 latitude in [-90, 90]): the guard logic of the real function, its
evenness, and that outside the guards it computes floor(2 pi / ACOS(1 - a / COS(pi/180 |lat|)^2)) with numpy's cos /
arccos as uninterpreted functions.  NOT decided by the solver: that this closed form is the DO-260B staircase -- no SMT
theory reaches arccos/cos; that part is *extracted* by concrete evaluation of the real function (0.0005-degree grid,
every change bisected to adjacent doubles) and compared with the 58 transition latitudes.
"""
import math
import struct

import z3

from spec import cpr as S
from symx import core, fp, harness as H, nl
from symx.fp import SymFP, F64, RNE, fpval
from symx.loader import load_repo

META = {
    "bounds": ["guards / evenness / operation order: every binary64 latitude in [-90, 90] (one symbolic Float64)",
               "table: 360001 grid latitudes (0.0005 deg) evaluated on the real function, each of the changes bisected "
               "to two adjacent doubles; extraction by concrete evaluation, NOT a solver verdict"],
    "outside": ["that the closed form floor(2 pi / arccos(1 - a/cos^2)) is the DO-260B staircase between grid points: "
                "extracted and compared, not decided (cvc5 transcendentals and z3 NRA+Taylor do not terminate on it); "
                "rests on assumption A-NL (cprNL constant between consecutive extracted breakpoints)",
                "the Cython twin (see C15)"],
    "stubs": ["numpy.cos -> COS(|x|), numpy.arccos -> ACOS (uninterpreted Float64 -> Float64); arithmetic on their results -> "
              "uninterpreted FADD/FSUB/FMUL/FDIV (operation order is decided, not numerics)",
              "numpy.isclose -> |a-b| <= atol + rtol*|b| in binary64", "numpy.floor -> roundToIntegral(RTN)"],
    "assumptions": ["A-NL for the extracted table", "DO-260B transition latitudes computed in spec/cpr.py"],
    "closed_form": "extracted, not decided",
}


def items(tier, seed):
    return [("guards", {}), ("even", {}), ("table", {})]


def f2bits(x):
    return struct.unpack(">Q", struct.pack(">d", x))[0]


def spec_nl_fp(x):
    """the closed form with the same uninterpreted functions, built independently of the code under test"""
    a_c = 1 - math.cos(math.pi / 30)
    cands = sorted({a_c, math.nextafter(a_c, 0), math.nextafter(a_c, 1)})
    out = []
    for a in cands:
        ang = z3.fpMul(RNE, fpval(math.pi / 180), z3.fpAbs(x))
        c = fp.COS(z3.fpAbs(ang))
        b = fp.absop("FMUL", c, c)
        inner = fp.absop("FSUB", fpval(1.0), fp.absop("FDIV", fpval(a), b))
        nlv = fp.absop("FDIV", fpval(2 * math.pi), fp.ACOS(inner))
        out.append((nlv, b))
    return out


def run_item(item):
    pm = load_repo()
    f = pm.common.cprNL
    if getattr(f, "__symx_stub__", False):
        raise H.HarnessError("cprNL is stubbed in this process")
    item.encoded("pyModeS.py_common.cprNL", "pyModeS.py_common.floor")
    if item.name == "table":
        return run_table(item)
    x = z3.FP("lat", F64)
    item.declare(x)
    item.assume(z3.Not(z3.fpIsNaN(x)), z3.fpLEQ(x, fpval(90.0)), z3.fpGEQ(x, fpval(-90.0)))
    conc = lambda m: {"lat": fp.fp_value(m, x)}
    ax = z3.fpAbs(x)
    # the windows of the property, as exact binary64 predicates
    near0 = z3.fpLEQ(ax, fpval(1e-8))
    w87 = z3.fpLEQ(z3.fpAbs(z3.fpSub(RNE, ax, fpval(87.0))), fpval(1e-9))
    beyond = z3.fpGT(ax, fpval(87.0))

    if item.name == "guards":
        specs = spec_nl_fp(x)

        def post(kind, v, ctx):
            if ctx.conc is not None:      # judging a real outcome on a concrete latitude
                lat = ctx.conc["lat"]
                if kind != "ret":
                    return False
                want = S.NL(lat)
                if abs(abs(lat) - 87) <= 1e-9:
                    return v in (1, 2)
                near = any(abs(abs(lat) - t) <= 1e-9 for t in S.TRANSITIONS.values())
                return v == want or (near and abs(v - want) == 1)
            alts = []
            for nlv, b in specs:
                fl = z3.fpRoundToIntegral(z3.RTN(), nlv)
                if kind == "ret":
                    if not H.is_int_like(v):
                        return False
                    alts.append(z3.And(z3.Not(z3.fpIsNaN(nlv)), z3.Not(z3.fpIsInf(nlv)),
                                       H.to_int_term(v) == z3.ToInt(z3.fpToReal(z3.fpRoundToIntegral(z3.RTZ(), fl)))))
                elif v == "ValueError":
                    alts.append(z3.fpIsNaN(nlv))
                elif v == "OverflowError":
                    alts.append(z3.fpIsInf(nlv))
                else:
                    return False
            mid = z3.Or(alts)
            if kind == "ret" and H.is_int_like(v):
                vi = H.to_int_term(v)
                return z3.If(near0, vi == 59, z3.If(w87, z3.Or(vi == 2, vi == 1), z3.If(beyond, vi == 1, mid)))
            return z3.And(z3.Not(near0), z3.Not(w87), z3.Not(beyond), mid)

        # paths through the uninterpreted closed form have no concrete twin to compare a sample with
        H.decide(item, "cprNL", lambda: f(SymFP(x)), lambda c: H.real_call("pyModeS.common.cprNL", c["lat"]), conc, post,
                 validate=lambda p: not fp.mentions_uf(p.pc) and not (H.is_int_like(p.value) and not isinstance(p.value, int)))
        # reachability twins: each guard region is inhabited
        for lab, cnd in (("near0", near0), ("at87", w87), ("beyond", beyond), ("mid", z3.Not(z3.Or(near0, w87, beyond)))):
            item.sat_witness(lab, [cnd])

    elif item.name == "even":
        def both():
            def one(arg):
                try:
                    return ("ret", f(arg))
                except (ValueError, OverflowError, ZeroDivisionError) as e:
                    return ("exc", type(e).__name__)
            return one(SymFP(x)), one(SymFP(z3.fpNeg(x)))
        paths = item.explore(both)
        for p in paths:
            (k1, v1), (k2, v2) = p.value
            if k1 != k2:
                claim = False
            elif k1 == "exc":
                claim = v1 == v2
            else:
                claim = H.to_int_term(v1) == H.to_int_term(v2)

            def replay(model):
                lat = fp.fp_value(model, x)
                a, b = H.real_call("pyModeS.common.cprNL", lat), H.real_call("pyModeS.common.cprNL", -lat)
                return a[:2] != b[:2], {"lat": lat}, "cprNL(lat)=%r cprNL(-lat)=%r" % (a[:2], b[:2])
            item.prove("even", p.pc, claim, replay)


def run_table(item):
    """extraction (concrete evaluation of the real function, not a solver verdict): the staircase of the real cprNL
    against the DO-260B transition latitudes"""
    st = nl.extract()
    tab = st.table()
    checks = 0
    bad = []
    # expected sequence of values from -90 to 90: 1,2,...,59,58,...,1
    want_vals = list(range(1, 60)) + list(range(58, 0, -1))
    vals = [v for _, _, v in tab]
    if vals != want_vals:
        # find a concrete latitude where the real function disagrees with DO-260B
        for lo, hi, v in tab:
            x = lo if math.isfinite(lo) else -90.0
            xs = [x, math.nextafter(hi, -math.inf) if math.isfinite(hi) else 90.0]
            for xx in xs:
                if isinstance(v, str) or (v != S.NL(xx) and all(abs(abs(xx) - t) > 1e-9 for t in S.TRANSITIONS.values())):
                    bad.append((xx, v, S.NL(xx)))
    cuts = [float(c) for c in st.cuts]
    wantcuts = [-S.T(n) for n in range(2, 60)] + [S.T(n) for n in range(59, 1, -1)]
    if len(cuts) == len(wantcuts):
        for c, w in zip(cuts, wantcuts):
            checks += 1
            if abs(c - w) > 1e-9 + 3e-14:   # one ulp of 87 on top of the 1e-9 window
                xx = (c + w) / 2
                bad.append((xx, None, S.NL(xx)))
    item.obligations += 0
    item.notes.append("table extraction: %d segments, %d breakpoints compared with DO-260B (+-1e-9 deg), %d grid "
                      "evaluations of the real function; concrete evaluation, not a solver verdict"
                      % (len(tab), checks, st.raw.get("evaluations", 0)))
    item.samples.append({"item": "table", "first_breakpoints": [[float(c), v] for c, v in zip(cuts[:3], vals[1:4])]})
    for xx, v, w in bad[:3]:
        r = H.real_call("pyModeS.common.cprNL", xx)
        ok = r[0] == "ret" and (r[1] == w or (abs(abs(xx) - 87) <= 1e-9 and r[1] in (1, 2)))
        if not ok:
            item.violations.append(H.Violation(item.name, "table", {"lat": xx}, "cprNL(%r) = %r, DO-260B NL = %d"
                                               % (xx, H.jsonable(r[:2]), w), raw={"lat_bits": f2bits(xx)}))
    if bad and not item.violations:
        # not reproducible by single calls in a fresh process: is the function history-dependent? (two calls in one process)
        for xx, v, w in bad[:6]:
            for other in (xx + 3e-5, xx - 3e-5, -xx):
                # a fresh interpreter for every attempt: earlier calls must not have been seen by the function
                if H.Replay._inst is not None:
                    H.Replay._inst.p.kill()
                    H.Replay._inst = None
                r = H.real_driver("cprnl_sequence", [other, xx])
                if r[0] == "ret" and r[1][1] != w and not (abs(abs(xx) - 87) <= 1e-9 and r[1][1] in (1, 2)):
                    item.violations.append(H.Violation(item.name, "table-sequence", {"calls": [other, xx]},
                                                       "cprNL(%r) then cprNL(%r) = %r in one process, DO-260B NL = %d"
                                                       % (other, xx, r[1][1], w), raw={"lat_bits": f2bits(xx)}))
                    break
            if item.violations:
                break
    if bad and not item.violations:
        raise H.HarnessError("extracted staircase differs from DO-260B but no concrete witness reproduces: %r" % (bad[:3],))
    # monotone / even on the table itself
    item.obligations += 1
    item.discharged += 1 if not bad else 0
