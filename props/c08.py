"""C08 - identity code and surveillance / all-call reply fields (DESIGN.md section 5 C08)."""
import z3

from spec import crc as SC
from symx import core, harness as H
from symx.core import SymInt, TabChar, bxor
from symx.loader import load_repo

META = {
    "bounds": ["all 2^13 identity codes incl. the X bit as solver variables, every other frame bit free, DF symbolic "
               "over 0..31, frames of 56 and 112 bits, mixed hex case",
               "interrogator: CL (3 bits) and IC (4 bits) and 17 high overlay bits symbolic"],
    "outside": ["descriptive text returned next to FS/DR/UM/CA (only the numeric field is compared)", "Cython twin (C15)"],
    "stubs": [],
    "assumptions": ["identity code bit order C1 A1 C2 A2 C4 A4 X B1 D1 B2 D2 B4 D4 (Annex 10 Vol IV 3.1.2.6.7.1)",
                    "DF11 PI = parity XOR (17 zero bits, CL, IC) (3.1.2.3.3.2 / 3.1.2.5.2.1.3)"],
}


def items(tier, seed):
    out = [("squawk13", {})]
    for n in (56, 112):
        out += [("idcode-%d" % n, {"n": n}), ("surv-identity-%d" % n, {"n": n}), ("fs-%d" % n, {"n": n}),
                ("dr-%d" % n, {"n": n}), ("um-%d" % n, {"n": n}), ("capability-%d" % n, {"n": n})]
    out += [("interrogator-56", {"n": 56}), ("emergency_squawk", {})]
    # history mode (harness.decide): the same call on an earlier frame first (same frame / other identity code / other DF)
    out += [("idcode-112@after:ID", {"n": 112}), ("idcode-56@after:ID", {"n": 56}), ("surv-identity-56@after:ID+DF", {"n": 56}),
            ("fs-56@after:", {"n": 56}), ("dr-112@after:DF", {"n": 112}), ("um-56@after:", {"n": 56}),
            ("capability-56@after:DF", {"n": 56}), ("emergency_squawk@after:ID", {})]
    return out


def digit(b4, b2, b1):
    """octal digit from three z3 Bools"""
    return z3.If(b4, 4, 0) + z3.If(b2, 2, 0) + z3.If(b1, 1, 0)


def squawk_spec(bits13):
    b = [x.true() for x in bits13]
    C1, A1, C2, A2, C4, A4, X, B1, D1, B2, D2, B4, D4 = b
    ds = [digit(A4, A2, A1), digit(B4, B2, B1), digit(C4, C2, C1), digit(D4, D2, D1)]
    return [TabChar("01234567", SymInt(it=d, lo=0, hi=7)) for d in ds]


def run_item(item):
    item.cross_check = True      # thorough tier: discharged obligations are re-decided by cvc5
    pm = load_repo()
    name, prm = item.name, item.params
    n = prm.get("n", 112)
    mk = lambda m, fr: {"msg": fr.concrete(m)}

    if name == "squawk13":
        item.encoded("pyModeS.py_common.squawk")
        s, x, bits = H.symbits("id", 13)
        item.declare(x)
        want = squawk_spec(bits)
        H.decide(item, "squawk(bits)", lambda: pm.common.squawk(s),
                 lambda c: H.real_call("pyModeS.common.squawk", c["bits"]),
                 lambda m: {"bits": bin(m.eval(x, model_completion=True).as_long())[2:].zfill(13)},
                 lambda k, v: k == "ret" and H.str_eq(v, want))
        return

    if name == "emergency_squawk":
        item.encoded("pyModeS.decoder.bds.bds61.emergency_squawk")
        fr = H.Frame([("DF", 5), ("CA", 3), ("ICAO", 24), ("TC", 5), ("ST", 3), ("ES", 3), ("ID", 13),
                      ("rest", 32), ("PI", 24)], case="mixed")
        item.declare(fr)
        want = squawk_spec(fr["ID"].bits)
        dom = z3.And(z3.Or(fr["DF"].int() == 17, fr["DF"].int() == 18), fr["TC"].int() == 28)

        def post(k, v):
            if k == "exc":
                return H.zand(v == "RuntimeError", z3.Not(dom))
            return H.zand(dom, H.str_eq(v, want))
        H.decide(item, "adsb.emergency_squawk", lambda: pm.adsb.emergency_squawk(fr.msg),
                 lambda c: H.real_call("pyModeS.adsb.emergency_squawk", c["msg"]), lambda m: mk(m, fr), post)
        item.sat_witness("tc28", [dom])
        return

    kind = name.rsplit("-", 1)[0]
    if kind == "interrogator":
        item.encoded("pyModeS.decoder.allcall.interrogator", "pyModeS.py_common.crc")
        DF, CA, AA = H.Field("DF", 5), H.Field("CA", 3), H.Field("AA", 24)
        OV = H.Field("OV", 24)   # overlay: 17 high bits, CL (3), IC (4)
        par = SC.parity_of_data_bits(DF.bits + CA.bits + AA.bits)
        fr = H.Frame.custom([DF, CA, AA, ("derived", [bxor(p, o) for p, o in zip(par, OV.bits)], None)], case="mixed")
        item.declare(fr, OV)
        ov = OV.int()
        dom = DF.int() == 11

        def post(k, v):
            if k == "exc":
                return H.zand(v == "RuntimeError", z3.Not(dom))
            if not isinstance(v, (str, core.SymStr)):
                return False
            if isinstance(v, str) and v == "corrupt IC":
                return H.zand(dom, ov > 79)
            cs = core.chars_of(v)
            pre = "".join(c for c in cs[:2] if isinstance(c, str))
            num = cs[2:]
            if pre not in ("II", "SI") or not all(isinstance(c, str) and c.isdigit() for c in num):
                return False
            val = int("".join(num))
            if str(val) != "".join(num):
                return False
            if pre == "II":     # CL = 0: II code = IC
                return H.zand(dom, ov == val, ov < 16)
            return H.zand(dom, ov >= 16, ov <= 79, ov - 16 == val)   # CL 1..4: SI = 16*(CL-1) + IC
        H.decide(item, "allcall.interrogator", lambda: pm.allcall.interrogator(fr.msg),
                 lambda c: H.real_call("pyModeS.allcall.interrogator", c["msg"]), lambda m: mk(m, fr), post)
        item.sat_witness("si", [dom, ov >= 16, ov <= 79])
        return

    # frames with the surveillance header
    fr = H.Frame([("DF", 5), ("FS", 3), ("DR", 5), ("IIS", 4), ("IDS", 2), ("ID", 13), ("rest", n - 32)], case="mixed")
    item.declare(fr)
    df = fr["DF"].int()
    dfc = z3.If(df > 24, 24, df)

    def guarded(dom, ok):
        def post(k, v):
            if k == "exc":
                return H.zand(v == "RuntimeError", z3.Not(dom))
            return H.zand(dom, ok(v))
        return post

    if kind == "idcode":
        item.encoded("pyModeS.py_common.idcode", "pyModeS.py_common.squawk")
        want = squawk_spec(fr["ID"].bits)
        H.decide(item, "common.idcode", lambda: pm.common.idcode(fr.msg),
                 lambda c: H.real_call("pyModeS.common.idcode", c["msg"]), lambda m: mk(m, fr),
                 guarded(z3.Or(dfc == 5, dfc == 21), lambda v: H.str_eq(v, want)))
    elif kind == "surv-identity":
        item.encoded("pyModeS.decoder.surv.identity", "pyModeS.decoder.surv._checkdf")
        want = squawk_spec(fr["ID"].bits)
        H.decide(item, "surv.identity", lambda: pm.surv.identity(fr.msg),
                 lambda c: H.real_call("pyModeS.surv.identity", c["msg"]), lambda m: mk(m, fr),
                 guarded(dfc == 5, lambda v: H.str_eq(v, want)))
    elif kind in ("fs", "dr"):
        item.encoded("pyModeS.decoder.surv." + kind)
        fld = fr["FS"].int() if kind == "fs" else fr["DR"].int()
        f = getattr(pm.surv, kind)
        H.decide(item, "surv." + kind, lambda: f(fr.msg), lambda c: H.real_call("pyModeS.surv." + kind, c["msg"]),
                 lambda m: mk(m, fr),
                 guarded(z3.Or(dfc == 4, dfc == 5),
                         lambda v: isinstance(v, tuple) and len(v) == 2 and H.int_eq(v[0], fld)),
                 cmp=lambda a, b: H.same_value(a[0], b[0]))
    elif kind == "um":
        item.encoded("pyModeS.decoder.surv.um")
        H.decide(item, "surv.um", lambda: pm.surv.um(fr.msg), lambda c: H.real_call("pyModeS.surv.um", c["msg"]),
                 lambda m: mk(m, fr),
                 guarded(z3.Or(dfc == 4, dfc == 5),
                         lambda v: isinstance(v, tuple) and len(v) == 3 and H.zand(H.int_eq(v[0], fr["IIS"].int()),
                                                                                   H.int_eq(v[1], fr["IDS"].int()))),
                 cmp=lambda a, b: H.same_value(a[:2], b[:2]))
    elif kind == "capability":
        item.encoded("pyModeS.decoder.allcall.capability", "pyModeS.decoder.allcall._checkdf")
        H.decide(item, "allcall.capability", lambda: pm.allcall.capability(fr.msg),
                 lambda c: H.real_call("pyModeS.allcall.capability", c["msg"]), lambda m: mk(m, fr),
                 guarded(dfc == 11, lambda v: isinstance(v, tuple) and len(v) == 2 and H.int_eq(v[0], fr["FS"].int())),
                 cmp=lambda a, b: H.same_value(a[0], b[0]))
    else:
        raise H.HarnessError("unknown item " + name)
    item.sat_witness("reachable", [])
