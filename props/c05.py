"""C05 - surface CPR global decode selects the solution nearest the receiver (DESIGN.md section 5 C05)."""
import math
import random
from fractions import Fraction

import z3

from props import cprlib as L
from spec import cpr as S
from symx import core, harness as H
from symx.core import SymReal
from symx.loader import load_repo

META = {
    "bounds": ["per work item: one NL band n x hemisphere (the equator band also with target/receiver on either side) x "
               "which frame is newer x longitude sector (west / middle / east / across the antimeridian: together all longitudes); both true positions, the "
               "receiver position (reals) and all other frame bits are solver variables; TC concrete in 5-8 per item",
               "displacement box containing every pair <= 0.2 NM apart; receiver box: |dlat| <= 0.75 deg (45 NM) and "
               "|dlon| <= min(44.99 deg, 0.75 deg / cos(lat_max of band)) around the circle, of both positions"],
    "outside": ["surface targets whose quantised latitude is within one step of +-90 (the surface format folds latitude "
                "modulo 90: the pole cannot be encoded)",
                "quantised latitudes within 1e-9 deg of an NL transition latitude",
                "binary64 rounding inside the decoder (real back end, exact rational constants)",
                "msg0 must be the even and msg1 the odd frame (documented calling convention of surface_position)"],
    "stubs": ["cprNL -> staircase extracted from the real cprNL (assumption A-NL)", "numpy.floor -> exact floor"],
    "assumptions": ["DO-260B A.1.7.3 encoder with 90-degree zones (spec/cpr.py); A-NL"],
}


def items(tier, seed):
    out = []
    rnd = random.Random(seed)
    bl = list(range(1, 60)) if tier == "thorough" else [1, 2, 58, 59, rnd.choice(range(3, 58))]
    for k, n in enumerate(bl):
        # the equator band is split by the hemispheres of (even-frame target, receiver): together they cover every
        # placement, including target and receiver on opposite sides of the equator
        signs = ("EQ-NN", "EQ-NS", "EQ-SN", "EQ-SS") if n == 59 else ("N", "S")
        for sg in signs:
            newers = ("even", "odd", "tie") if tier == "thorough" else ("even", "odd") if (n == 1 or sg in ("EQ-NS", "EQ-SN")) else \
                (("even",) if (k + (sg == "N")) % 2 else ("odd",))
            for newer in newers:
                for sector in ("west", "mid", "east", "anti"):
                    out.append(("surf-n%02d-%s-%s-%s" % (n, sg, newer, sector),
                                {"n": n, "sign": sg, "newer": newer, "sector": sector, "tcs": [rnd.randint(5, 8), rnd.randint(5, 8)]}))
    out.append(("noref", {}))
    return out


def band_cond(r, n, sg):
    if sg.startswith("EQ"):
        lo, hi = S.band(59)
        return z3.And(r >= -S.Q(hi), r <= S.Q(hi))
    return S.in_band(r, n, 1 if sg == "N" else -1)


def run_item(item):
    pm, stair = L.setup(item)
    if item.name == "noref":
        return run_noref(item, pm)
    prm = item.params
    n, sg, newer, sector, tcs = prm["n"], prm["sign"], prm["newer"], prm["sector"], prm["tcs"]
    fe = L.pos_frame(prefix="e_", F=0, tc=tcs[0])
    fo = L.pos_frame(prefix="o_", F=1, tc=tcs[1])
    late, lone, lato, lono, lat_ref, lon_ref = z3.Reals("lat_e lon_e lat_o lon_o lat_ref lon_ref")
    item.declare(fe, fo, late, lone, lato, lono, lat_ref, lon_ref)
    item.real_inputs = [lat_ref, lon_ref]
    ee = S.Enc(late, lone, 0, n, 90, "e")
    eo = S.Enc(lato, lono, 1, n, 90, "o")
    d = Fraction(1, 300)                     # 0.2 NM in degrees of latitude
    latmax = float(S.band(n)[1])
    c = math.cos(math.radians(min(latmax + 0.01, 89.9999)))
    dlmax = min(Fraction(360), d / Fraction(c).limit_denominator(10 ** 6) + Fraction(1, 10 ** 6))
    rmax = min(Fraction(4499, 100), Fraction(3, 4) / Fraction(c).limit_denominator(10 ** 6))
    dl = lono - lone

    def circ_le(x, bound):
        b = S.Q(bound)
        return z3.Or(z3.And(x <= b, x >= -b), x >= 360 - b, x <= -360 + b)
    pole = S.Q(90 - Fraction(90, 59 * S.P) * 2)
    sect = {"west": z3.And(lone > -130, lone < -45), "mid": z3.And(lone >= -45, lone <= 45),
            "east": z3.And(lone > 45, lone < 130), "anti": z3.Or(lone <= -130, lone >= 130)}[sector]
    if sg.startswith("EQ-"):
        item.assume(ee.rlat >= 0 if sg[3] == "N" else ee.rlat < 0, lat_ref > 0 if sg[4] == "N" else lat_ref <= 0)
    item.assume(L.adsb_df(fe), L.adsb_df(fo), sect,
                late >= -90, late <= 90, lato >= -90, lato <= 90, lone >= -180, lone < 180, lono >= -180, lono < 180,
                lat_ref >= -90, lat_ref <= 90, lon_ref >= -180, lon_ref <= 180,
                *ee.cons, *eo.cons, band_cond(ee.rlat, n, sg), band_cond(eo.rlat, n, sg),
                ee.rlat <= pole, ee.rlat >= -pole, eo.rlat <= pole, eo.rlat >= -pole,
                fe["LAT"].var == ee.YZ, fe["LON"].var == ee.XZ, fo["LAT"].var == eo.YZ, fo["LON"].var == eo.XZ,
                lato - late <= S.Q(d), late - lato <= S.Q(d), circ_le(dl, dlmax),
                lat_ref - late <= S.Q(Fraction(3, 4)), late - lat_ref <= S.Q(Fraction(3, 4)),
                lat_ref - lato <= S.Q(Fraction(3, 4)), lato - lat_ref <= S.Q(Fraction(3, 4)),
                circ_le(lon_ref - lone, rmax), circ_le(lon_ref - lono, rmax))
    t_e, t_o = {"even": (1000, 993), "odd": (993, 1000), "tie": (1000, 1000)}[newer]
    conc = lambda m: {"msg0": fe.concrete(m), "msg1": fo.concrete(m), "t0": t_e, "t1": t_o,
                      "lat_ref": L.fval(m, lat_ref), "lon_ref": L.fval(m, lon_ref),
                      "lat_e": L.fval(m, late), "lon_e": L.fval(m, lone), "lat_o": L.fval(m, lato), "lon_o": L.fval(m, lono)}

    def post(kind, v):
        if kind != "ret" or v is None:
            return False
        ce = L.result_claim(v, ee, (-180, 180))
        co = L.result_claim(v, eo, (-180, 180))
        return ce if newer == "even" else co if newer == "odd" else H.zor(ce, co)
    item.encoded("pyModeS.decoder.adsb.position", "pyModeS.decoder.bds.bds06.surface_position", "pyModeS.py_common.floor")
    targets = [("pyModeS.adsb.position", pm.adsb.position)]
    if item.tier == "thorough":
        targets.append(("pyModeS.adsb.surface_position", pm.adsb.surface_position))
    for path, f in targets:
        H.decide(item, path.split("pyModeS.")[1],
                 lambda: f(fe.msg, fo.msg, t_e, t_o, SymReal(lat_ref), SymReal(lon_ref)),
                 lambda c_: H.real_call(path, c_["msg0"], c_["msg1"], c_["t0"], c_["t1"], c_["lat_ref"], c_["lon_ref"]),
                 conc, post)
    item.sat_witness("reachable", [])


def run_noref(item, pm):
    """without a receiver location position() refuses surface pairs with RuntimeError (all bits free)"""
    fa = L.pos_frame(prefix="a_", case="mixed")
    fb = L.pos_frame(prefix="b_", case="mixed")
    item.declare(fa, fb)
    item.assume(L.adsb_df(fa), L.adsb_df(fb), L.tc_class(fa, "surf"), L.tc_class(fb, "surf"))
    item.encoded("pyModeS.decoder.adsb.position")
    conc = lambda m: {"msg0": fa.concrete(m), "msg1": fb.concrete(m)}
    for label, extra in (("noref", ()), ("nolat", (None, 3.0)), ("nolon", (3.0, None))):
        H.decide(item, label, lambda: pm.adsb.position(fa.msg, fb.msg, 5, 7, *extra),
                 lambda c: H.real_call("pyModeS.adsb.position", c["msg0"], c["msg1"], 5, 7, *extra), conc,
                 lambda k, v: k == "exc" and v == "RuntimeError")
