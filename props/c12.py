"""C12 - BDS register inference is total, format-sound and complete on plausible data (DESIGN.md section 5 C12)."""
import z3

from spec import bdsrules as R
from symx import core, harness as H, stubs
from symx.core import SymBool, SymReal
from symx.loader import load_repo

META = {
    "bounds": ["one fully symbolic 112-bit frame (DF, header, 56 MB bits, parity, hex case per digit); infer with mrar "
               "False and True; every isXX predicate explored into a summary formula F_XX(frame) and reused",
               "is50or60: frame symbolic, reference speed / track / altitude symbolic reals"],
    "outside": ["the numeric values of the three candidate distances in is50or60 (vector norms, aero conversions and "
                "sin/cos are uninterpreted); decided are None-exactly-when-not-both, totality, the NaN handling and that "
                "the label returned belongs to a smallest non-NaN distance",
                "BDS 6,0 completeness when Mach and IAS are both available on a DF20 carrier (the cross-check goes through "
                "aero.mach2cas, an uninterpreted function here)",
                "BDS 4,4 completeness (two candidate temperature decodings)",
                "sign bits under a clear status bit (not asserted either way)",
                "cap17 inside is17 is its C11 contract ('BDS20' in caps <=> MB bit 7)"],
    "stubs": ["aero.mach2cas/mach2tas/cas2tas -> uninterpreted Real x Real -> Real", "numpy sin/cos/radians -> "
              "uninterpreted; numpy array/linalg.norm/nanargmin -> opaque array, some index in 0..2 or ValueError",
              "bds17.cap17 -> contract stub", "common.wrongstatus and every isXX -> function summaries"],
    "assumptions": ["Doc 9871 register layouts as tabulated in spec/bdsrules.py"],
}


def items(tier, seed):
    out = [("infer-df17", {}), ("infer-other", {}), ("infer-commb", {"mrar": False}), ("infer-commb-mrar", {"mrar": True})]
    out += [("sound-" + r, {"reg": r}) for r in sorted(R.SOUND)]
    out += [("complete-" + r, {"reg": r}) for r in ("BDS10", "BDS17", "BDS20", "BDS30", "BDS40", "BDS45", "BDS50", "BDS60")]
    out += [("is50or60", {})]
    out += [("purity-" + r, {"reg": r}) for r in sorted(R.SOUND)]
    return out


def frame():
    return H.Frame([("DF", 5), ("HDR", 27), ("MB", 56), ("AP", 24)], case="mixed")


def mbbits(fr, first, last):
    return fr["MB"].bits[first - 1:last]


def U(fr, first, last):
    return core.bits_to_int(mbbits(fr, first, last))


def Sg(fr, sign, first, last):
    """two's complement: sign bit + magnitude bits first..last"""
    return U(fr, first, last) - z3.If(fr["MB"].bits[sign - 1].true(), 1 << (last - first + 1), 0)


def bit(fr, k):
    return fr["MB"].bits[k - 1].true()


def nonzero(fr, first, last):
    return z3.Or([b.true() for b in mbbits(fr, first, last)])


def pred_term(item, pm, reg, fr):
    """summary formula of the library's own predicate on fr.msg, as a z3 Bool"""
    modn, fn = R.PREDICATE[reg]
    f = getattr(getattr(pm.decoder.bds, modn), fn)
    paths = item.explore(lambda: f(fr.msg))
    alts = []
    for p in paths:
        if p.kind != "ret":
            raise H.HarnessError("%s raises %r on a long frame" % (fn, p.value))
        cond = z3.And(p.pc[len(item.assumptions):]) if len(p.pc) > len(item.assumptions) else z3.BoolVal(True)
        v = p.value
        if isinstance(v, SymBool):
            alts.append(z3.And(cond, v.t))
        elif v is True:
            alts.append(cond)
        elif v is not False:
            raise H.HarnessError("%s returned %r" % (fn, v))
    return z3.Or(alts) if alts else z3.BoolVal(False)


def rule_violated(fr, rule):
    if rule[0] == "id":
        return U(fr, 1, 8) != rule[1]
    if rule[0] == "zero":
        return nonzero(fr, rule[1], rule[2])
    if rule[0] == "status":
        return z3.And(z3.Not(bit(fr, rule[1])), nonzero(fr, rule[2], rule[3]))
    raise AssertionError(rule)


def envelope(fr, reg, df):
    """sufficient condition for 'this payload must be reported as reg' (see spec/bdsrules.py)"""
    cs = [nonzero(fr, 1, 56)]
    for sb, a, b in R.FIELDS.get(reg, []):
        cs.append(z3.Or(bit(fr, sb), z3.Not(nonzero(fr, a, b))))
    for rule in R.SOUND[reg]:
        if rule[0] != "status":
            cs.append(z3.Not(rule_violated(fr, rule)))
    if reg == "BDS10":
        ovc, ver = bit(fr, 15), U(fr, 17, 23)
        cs.append(z3.If(ovc, ver >= 5, ver <= 4))
    if reg == "BDS17":
        cs.append(bit(fr, 7))
    if reg == "BDS20":
        for k in range(8):
            c = U(fr, 9 + 6 * k, 14 + 6 * k)
            cs.append(z3.Or(z3.And(c >= 1, c <= 26), c == 32, z3.And(c >= 48, c <= 57)))
    if reg == "BDS30":
        cs.append(z3.Not(z3.And(bit(fr, 29), bit(fr, 30))))
        cs.append(U(fr, 16, 22) < 48)
    if reg == "BDS50":
        roll = Sg(fr, 2, 3, 11)              # x 45/256 deg
        gs, tas = U(fr, 25, 34) * 2, U(fr, 47, 56) * 2
        cs.append(z3.Implies(bit(fr, 1), z3.And(roll * 45 <= 50 * 256, roll * 45 >= -50 * 256)))
        cs.append(z3.Implies(bit(fr, 24), gs <= 600))
        cs.append(z3.Implies(bit(fr, 46), tas <= 600))
        cs.append(z3.Implies(z3.And(bit(fr, 24), bit(fr, 46)), z3.And(tas - gs <= 200, gs - tas <= 200)))
    if reg == "BDS60":
        ias, mach = U(fr, 14, 23), U(fr, 25, 34)          # kt ; x 2.048/512
        vrb, vri = Sg(fr, 36, 37, 45) * 32, Sg(fr, 47, 48, 56) * 32
        cs.append(z3.Implies(bit(fr, 13), ias <= 500))
        cs.append(z3.Implies(bit(fr, 24), mach * 2048 <= 512 * 1000))
        cs.append(z3.Implies(bit(fr, 35), z3.And(vrb <= 6000, vrb >= -6000)))
        cs.append(z3.Implies(bit(fr, 46), z3.And(vri <= 6000, vri >= -6000)))
        cs.append(z3.Or(df == 21, z3.Not(z3.And(bit(fr, 13), bit(fr, 24)))))
    if reg == "BDS45":
        t = Sg(fr, 17, 18, 26)               # x 0.25 C
        cs.append(z3.Implies(bit(fr, 16), z3.And(t <= 240, t >= -320)))
    return z3.And(cs)


def concrete_5060(c, got):
    """judge a real is50or60 outcome on concrete inputs: the arbitration (NaN handling, index -> label) is recomputed
    from the library's own field decoders and aero conversions (numerics trusted, as everywhere in C12)"""
    import math
    rc = lambda f, *a: H.real_call(f, *a)
    msg = c["msg"]
    is50, is60 = rc("pyModeS.commb.is50", msg), rc("pyModeS.commb.is60", msg)
    if not (is50[0] == "ret" and is60[0] == "ret" and is50[1] and is60[1]):
        return got is None
    val = lambda f: rc(f, msg)[1]
    h60, m60, i60 = val("pyModeS.commb.hdg60"), val("pyModeS.commb.mach60"), val("pyModeS.commb.ias60")
    ft, kts = 0.3048, 0.514444
    if m60 is not None and i60 is not None:
        ias_ = rc("pyModeS.extra.aero.mach2cas", m60, c["alt"] * ft)[1] / kts
        if abs(i60 - ias_) > 20:
            return got == "BDS50"
    if h60 is None or (m60 is None and i60 is None):
        return got == "BDS50,BDS60"
    h50, v50 = val("pyModeS.commb.trk50"), val("pyModeS.commb.gs50")
    if h50 is None or v50 is None:
        return got == "BDS50,BDS60"

    def vxy(v, ang):
        return v * math.sin(math.radians(ang)), v * math.cos(math.radians(ang))
    cand = [vxy(v50 * kts, h50)]
    cand.append(vxy(rc("pyModeS.extra.aero.mach2tas", m60, c["alt"] * ft)[1], h60) if m60 is not None else None)
    cand.append(vxy(rc("pyModeS.extra.aero.cas2tas", i60 * kts, c["alt"] * ft)[1], h60) if i60 is not None else None)
    mu = vxy(c["spd"] * kts, c["trk"])
    d = [None if x is None else math.hypot(x[0] - mu[0], x[1] - mu[1]) for x in cand]
    live = [k for k in range(3) if d[k] is not None and d[k] == d[k]]
    if not live:
        return got == "BDS50,BDS60"
    best = min(d[k] for k in live)
    labels = ["BDS50", "BDS60", "BDS60"]
    return got in {labels[k] for k in live if d[k] <= best * (1 + 1e-9) + 1e-9}


def run_item(item):
    item.cross_check = True      # thorough tier: discharged obligations are re-decided by cvc5
    pm = load_repo()
    stubs.install_cap17_contract(pm)
    stubs.install_summaries(pm)
    name, prm = item.name, item.params
    fr = frame()
    item.declare(fr)
    df = fr["DF"].int()
    conc = lambda m: {"msg": fr.concrete(m)}
    commb = z3.Or(df == 20, df == 21)

    if name.startswith("purity-"):
        # the predicates are functions of the message only: called on two messages in a row (in either order of the
        # headers / payloads the solver likes), each answer equals the predicate's own formula for that message
        reg = prm["reg"]
        modn, fn = R.PREDICATE[reg]
        path = "pyModeS.decoder.bds.%s.%s" % (modn, fn)
        item.encoded(path)
        # the second message carries the SAME 56-bit MB field under a different header (DF, altitude / identity code,
        # parity): the path decisions on the payload coincide, so the joint exploration stays small, and it is the case
        # in which a verdict remembered per payload would be wrong
        fr2 = H.Frame.custom([H.Field("b_DF", 5), H.Field("b_HDR", 27), fr["MB"], H.Field("b_AP", 24)], prefix="b_", case="mixed")
        item.declare(fr2)
        item.assume(commb, z3.Or(fr2["DF"].int() == 20, fr2["DF"].int() == 21))
        F1 = pred_term(item, pm, reg, fr)
        F2 = pred_term(item, pm, reg, fr2)
        f = getattr(getattr(pm.decoder.bds, modn), fn)
        f = getattr(f, "__symx_summary__", f)

        def two():
            return f(fr.msg), f(fr2.msg)
        for p in item.explore(two):
            if p.kind != "ret":
                claim = False
            else:
                a, b = p.value
                claim = z3.And(core.tobool(a) == F1, core.tobool(b) == F2)

            def replay(model):
                m1, m2 = fr.concrete(model), fr2.concrete(model)
                seq = H.fresh_driver("call_sequence", [[path, [m1]], [path, [m2]]])
                alone = H.fresh_driver("call_sequence", [[path, [m2]]])
                bad = seq[0] != "ret" or alone[0] != "ret" or seq[1][1] != alone[1][0]
                return bad, {"calls": [m1, m2]}, "%s(%s) after %s(%s) = %r, alone = %r" % (fn, m2, fn, m1, seq[1][1:], alone[1]), seq
            item.prove("purity", p.pc, claim, replay)
        return

    if name.startswith("sound-") or name.startswith("complete-"):
        reg = prm["reg"]
        modn, fn = R.PREDICATE[reg]
        path = "pyModeS.decoder.bds.%s.%s" % (modn, fn)
        item.encoded(path, "pyModeS.py_common.wrongstatus")
        item.assume(commb)
        F = pred_term(item, pm, reg, fr)

        def mk_replay(expect, what):
            def replay(model):
                msg = fr.concrete(model)
                r = H.real_call(path, msg)
                bad = r[0] != "ret" or bool(r[1]) != expect
                return bad, {"msg": msg}, "%s(%s) = %r but %s" % (fn, msg, H.jsonable(r[:2]), what), r
            return replay
        if name.startswith("sound-"):
            for k, rule in enumerate(R.SOUND[reg]):
                viol = rule_violated(fr, rule)
                item.sat_witness("rule%d" % k, [viol])
                item.prove("%s-rule%d" % (reg, k), [viol], z3.Not(F), mk_replay(False, "violates %r" % (rule,)))
            item.prove("%s-empty" % reg, [z3.Not(nonzero(fr, 1, 56))], z3.Not(F), mk_replay(False, "the payload is all zero"))
        else:
            E = envelope(fr, reg, df)
            item.sat_witness("envelope", [E])
            item.prove("%s-complete" % reg, [E], F, mk_replay(True, "the payload is a valid in-envelope %s" % reg))
        return

    if name.startswith("infer"):
        item.encoded("pyModeS.decoder.bds.infer", *["pyModeS.decoder.bds.%s.%s" % v for v in R.PREDICATE.values()])
        payload0 = z3.Not(nonzero(fr, 1, 56))
        if name == "infer-df17":
            item.assume(df == 17)
            tc = U(fr, 1, 5)

            def post(kind, v):
                if kind != "ret":
                    return False
                if isinstance(v, str) and v == "EMPTY":
                    return payload0
                want = z3.Or([z3.And(tc == t, v == lab) for t, lab in R.DF17_TC.items() if isinstance(v, str)] or [False])
                in_table = z3.Or([tc == t for t in R.DF17_TC])
                # other type codes: any string / None, but never an exception
                return z3.And(z3.Not(payload0), z3.If(in_table, want, z3.BoolVal(v is None or isinstance(v, str))))
            for mrar in (False, True):
                H.decide(item, "infer-df17-%s" % mrar, lambda: pm.bds.infer(fr.msg, mrar),
                         lambda c: H.real_call("pyModeS.bds.infer", c["msg"], mrar), conc, post)
        elif name == "infer-other":
            item.assume(z3.Not(z3.Or(df == 17, df == 20, df == 21)))

            def post(kind, v):
                if kind != "ret" or not (v is None or isinstance(v, str)):
                    return False
                if v == "EMPTY":
                    return payload0
                return z3.Not(payload0)
            for mrar in (False, True):
                H.decide(item, "infer-other-%s" % mrar, lambda: pm.bds.infer(fr.msg, mrar),
                         lambda c: H.real_call("pyModeS.bds.infer", c["msg"], mrar), conc, post)
        else:
            mrar = prm["mrar"]
            item.assume(commb)
            labels = R.LABELS_MRAR if mrar else R.LABELS
            F = {lab: pred_term(item, pm, lab, fr) for lab in labels}

            def post(kind, v):
                if kind != "ret" or not (v is None or isinstance(v, str)):
                    return False
                if v == "EMPTY":
                    return payload0
                parts = [] if v is None else v.split(",")
                if parts != sorted(set(parts)) or any(p not in labels for p in parts):
                    return False
                return z3.And([z3.Not(payload0)] + [(F[lab] if lab in parts else z3.Not(F[lab])) for lab in labels])
            H.decide(item, name, lambda: pm.bds.infer(fr.msg, mrar),
                     lambda c: H.real_call("pyModeS.bds.infer", c["msg"], mrar), conc, post)
        return

    if name == "is50or60":
        item.encoded("pyModeS.decoder.bds.is50or60", "pyModeS.decoder.bds.bds50.is50", "pyModeS.decoder.bds.bds60.is60")
        item.assume(commb)
        spd, trk, alt = z3.Reals("spd_ref trk_ref alt_ref")
        item.declare(spd, trk, alt)
        item.real_inputs = [spd, trk, alt]
        item.assume(spd >= 0, spd <= 700, trk >= 0, trk < 360, alt >= -1000, alt <= 50000)
        F50, F60 = pred_term(item, pm, "BDS50", fr), pred_term(item, pm, "BDS60", fr)
        both = z3.And(F50, F60)
        from props.cprlib import fval
        conc2 = lambda m: {"msg": fr.concrete(m), "spd": fval(m, spd), "trk": fval(m, trk), "alt": fval(m, alt)}

        def post(kind, v, ctx):
            if kind != "ret":
                return False
            if v is None:
                return z3.Not(both)
            if v not in ("BDS50", "BDS60", "BDS50,BDS60"):
                return False
            if ctx.conc is not None:
                return concrete_5060(ctx.conc, v)
            cs = [both]
            if ctx.conc is None and ctx.path is not None:
                # the arbitration step: when the three candidate distances (BDS 5,0 vector; BDS 6,0 from Mach; BDS 6,0
                # from IAS; NaN where the quantity is missing) were formed, the answer is the label of the smallest
                # non-NaN one, or both labels when all are NaN. The distances are uninterpreted terms: what is decided is
                # the NaN handling and the index -> label map, not the numerics.
                arg = [n[1] for n in ctx.path.notes if isinstance(n, tuple) and n and n[0] == "argmin_input"]
                if arg:
                    d = arg[-1]
                    labels = ["BDS50", "BDS60", "BDS60"]
                    if len(d) != 3:
                        return False
                    live = [k for k in range(3) if not (isinstance(d[k], float) and d[k] != d[k])]
                    if not live:
                        cs.append(z3.BoolVal(v == "BDS50,BDS60"))
                    else:
                        alts = []
                        for k in live:
                            tk = SymReal.of(d[k]).t
                            mins = [tk <= SymReal.of(d[j]).t for j in live if j != k]
                            alts.append(z3.And(mins + [z3.BoolVal(v == labels[k])]))
                        cs.append(z3.Or(alts))
            return z3.And(cs)
        H.decide(item, "is50or60", lambda: pm.bds.is50or60(fr.msg, SymReal(spd), SymReal(trk), SymReal(alt)),
                 lambda c: H.real_call("pyModeS.bds.is50or60", c["msg"], c["spd"], c["trk"], c["alt"]), conc2, post,
                 cmp=lambda a, b: (a is None) == (b is None))
        item.sat_witness("both", [both])
