"""C12 - BDS register inference is total, format-sound and complete on plausible data (DESIGN.md section 5 C12)."""
import z3

from spec import bdsrules as R
from symx import core, harness as H, stubs
from symx.core import SymBool, SymReal
from symx.loader import load_repo

META = {
    "bounds": ["one fully symbolic 112-bit frame (DF, header, 56 MB bits, parity, hex case per digit); infer with mrar "
               "False and True; every isXX predicate explored into a summary formula F_XX(frame) and reused",
               "is50or60: frame symbolic, reference speed / track / altitude symbolic reals"],
    "outside": ["which of BDS50 / BDS60 is numerically nearest in is50or60 (numpy norm / nanargmin are modelled as 'some "
                "index or ValueError'); only None-exactly-when-not-both, totality and the result set are decided",
                "BDS 6,0 completeness when Mach and IAS are both available on a DF20 carrier (the cross-check goes through "
                "aero.mach2cas, an uninterpreted function here)",
                "BDS 4,4 completeness (two candidate temperature decodings)",
                "sign bits under a clear status bit (not asserted either way)",
                "cap17 inside is17 is its C11 contract ('BDS20' in caps <=> MB bit 7)"],
    "stubs": ["aero.mach2cas/mach2tas/cas2tas -> uninterpreted Real x Real -> Real", "numpy sin/cos/radians -> "
              "uninterpreted; numpy array/linalg.norm/nanargmin -> opaque array, some index in 0..2 or ValueError",
              "bds17.cap17 -> contract stub", "common.wrongstatus and every isXX -> function summaries"],
    "assumptions": ["Doc 9871 register layouts as tabulated in spec/bdsrules.py"],
}


def items(tier, seed):
    out = [("infer-df17", {}), ("infer-other", {}), ("infer-commb", {"mrar": False}), ("infer-commb-mrar", {"mrar": True})]
    out += [("sound-" + r, {"reg": r}) for r in sorted(R.SOUND)]
    out += [("complete-" + r, {"reg": r}) for r in ("BDS10", "BDS17", "BDS20", "BDS30", "BDS40", "BDS45", "BDS50", "BDS60")]
    out += [("is50or60", {})]
    return out


def frame():
    return H.Frame([("DF", 5), ("HDR", 27), ("MB", 56), ("AP", 24)], case="mixed")


def mbbits(fr, first, last):
    return fr["MB"].bits[first - 1:last]


def U(fr, first, last):
    return core.bits_to_int(mbbits(fr, first, last))


def Sg(fr, sign, first, last):
    """two's complement: sign bit + magnitude bits first..last"""
    return U(fr, first, last) - z3.If(fr["MB"].bits[sign - 1].true(), 1 << (last - first + 1), 0)


def bit(fr, k):
    return fr["MB"].bits[k - 1].true()


def nonzero(fr, first, last):
    return z3.Or([b.true() for b in mbbits(fr, first, last)])


def pred_term(item, pm, reg, fr):
    """summary formula of the library's own predicate on fr.msg, as a z3 Bool"""
    modn, fn = R.PREDICATE[reg]
    f = getattr(getattr(pm.decoder.bds, modn), fn)
    paths = item.explore(lambda: f(fr.msg))
    alts = []
    for p in paths:
        if p.kind != "ret":
            raise H.HarnessError("%s raises %r on a long frame" % (fn, p.value))
        cond = z3.And(p.pc[len(item.assumptions):]) if len(p.pc) > len(item.assumptions) else z3.BoolVal(True)
        v = p.value
        if isinstance(v, SymBool):
            alts.append(z3.And(cond, v.t))
        elif v is True:
            alts.append(cond)
        elif v is not False:
            raise H.HarnessError("%s returned %r" % (fn, v))
    return z3.Or(alts) if alts else z3.BoolVal(False)


def rule_violated(fr, rule):
    if rule[0] == "id":
        return U(fr, 1, 8) != rule[1]
    if rule[0] == "zero":
        return nonzero(fr, rule[1], rule[2])
    if rule[0] == "status":
        return z3.And(z3.Not(bit(fr, rule[1])), nonzero(fr, rule[2], rule[3]))
    raise AssertionError(rule)


def envelope(fr, reg, df):
    """sufficient condition for 'this payload must be reported as reg' (see spec/bdsrules.py)"""
    cs = [nonzero(fr, 1, 56)]
    for sb, a, b in R.FIELDS.get(reg, []):
        cs.append(z3.Or(bit(fr, sb), z3.Not(nonzero(fr, a, b))))
    for rule in R.SOUND[reg]:
        if rule[0] != "status":
            cs.append(z3.Not(rule_violated(fr, rule)))
    if reg == "BDS10":
        ovc, ver = bit(fr, 15), U(fr, 17, 23)
        cs.append(z3.If(ovc, ver >= 5, ver <= 4))
    if reg == "BDS17":
        cs.append(bit(fr, 7))
    if reg == "BDS20":
        for k in range(8):
            c = U(fr, 9 + 6 * k, 14 + 6 * k)
            cs.append(z3.Or(z3.And(c >= 1, c <= 26), c == 32, z3.And(c >= 48, c <= 57)))
    if reg == "BDS30":
        cs.append(z3.Not(z3.And(bit(fr, 29), bit(fr, 30))))
        cs.append(U(fr, 16, 22) < 48)
    if reg == "BDS50":
        roll = Sg(fr, 2, 3, 11)              # x 45/256 deg
        gs, tas = U(fr, 25, 34) * 2, U(fr, 47, 56) * 2
        cs.append(z3.Implies(bit(fr, 1), z3.And(roll * 45 <= 50 * 256, roll * 45 >= -50 * 256)))
        cs.append(z3.Implies(bit(fr, 24), gs <= 600))
        cs.append(z3.Implies(bit(fr, 46), tas <= 600))
        cs.append(z3.Implies(z3.And(bit(fr, 24), bit(fr, 46)), z3.And(tas - gs <= 200, gs - tas <= 200)))
    if reg == "BDS60":
        ias, mach = U(fr, 14, 23), U(fr, 25, 34)          # kt ; x 2.048/512
        vrb, vri = Sg(fr, 36, 37, 45) * 32, Sg(fr, 47, 48, 56) * 32
        cs.append(z3.Implies(bit(fr, 13), ias <= 500))
        cs.append(z3.Implies(bit(fr, 24), mach * 2048 <= 512 * 1000))
        cs.append(z3.Implies(bit(fr, 35), z3.And(vrb <= 6000, vrb >= -6000)))
        cs.append(z3.Implies(bit(fr, 46), z3.And(vri <= 6000, vri >= -6000)))
        cs.append(z3.Or(df == 21, z3.Not(z3.And(bit(fr, 13), bit(fr, 24)))))
    if reg == "BDS45":
        t = Sg(fr, 17, 18, 26)               # x 0.25 C
        cs.append(z3.Implies(bit(fr, 16), z3.And(t <= 240, t >= -320)))
    return z3.And(cs)


def run_item(item):
    pm = load_repo()
    stubs.install_cap17_contract(pm)
    stubs.install_summaries(pm)
    name, prm = item.name, item.params
    fr = frame()
    item.declare(fr)
    df = fr["DF"].int()
    conc = lambda m: {"msg": fr.concrete(m)}
    commb = z3.Or(df == 20, df == 21)

    if name.startswith("sound-") or name.startswith("complete-"):
        reg = prm["reg"]
        modn, fn = R.PREDICATE[reg]
        path = "pyModeS.decoder.bds.%s.%s" % (modn, fn)
        item.encoded(path, "pyModeS.py_common.wrongstatus")
        item.assume(commb)
        F = pred_term(item, pm, reg, fr)

        def mk_replay(expect, what):
            def replay(model):
                msg = fr.concrete(model)
                r = H.real_call(path, msg)
                bad = r[0] != "ret" or bool(r[1]) != expect
                return bad, {"msg": msg}, "%s(%s) = %r but %s" % (fn, msg, H.jsonable(r[:2]), what), r
            return replay
        if name.startswith("sound-"):
            for k, rule in enumerate(R.SOUND[reg]):
                viol = rule_violated(fr, rule)
                item.sat_witness("rule%d" % k, [viol])
                item.prove("%s-rule%d" % (reg, k), [viol], z3.Not(F), mk_replay(False, "violates %r" % (rule,)))
            item.prove("%s-empty" % reg, [z3.Not(nonzero(fr, 1, 56))], z3.Not(F), mk_replay(False, "the payload is all zero"))
        else:
            E = envelope(fr, reg, df)
            item.sat_witness("envelope", [E])
            item.prove("%s-complete" % reg, [E], F, mk_replay(True, "the payload is a valid in-envelope %s" % reg))
        return

    if name.startswith("infer"):
        item.encoded("pyModeS.decoder.bds.infer", *["pyModeS.decoder.bds.%s.%s" % v for v in R.PREDICATE.values()])
        payload0 = z3.Not(nonzero(fr, 1, 56))
        if name == "infer-df17":
            item.assume(df == 17)
            tc = U(fr, 1, 5)

            def post(kind, v):
                if kind != "ret":
                    return False
                if isinstance(v, str) and v == "EMPTY":
                    return payload0
                want = z3.Or([z3.And(tc == t, v == lab) for t, lab in R.DF17_TC.items() if isinstance(v, str)] or [False])
                in_table = z3.Or([tc == t for t in R.DF17_TC])
                # other type codes: any string / None, but never an exception
                return z3.And(z3.Not(payload0), z3.If(in_table, want, z3.BoolVal(v is None or isinstance(v, str))))
            for mrar in (False, True):
                H.decide(item, "infer-df17-%s" % mrar, lambda: pm.bds.infer(fr.msg, mrar),
                         lambda c: H.real_call("pyModeS.bds.infer", c["msg"], mrar), conc, post)
        elif name == "infer-other":
            item.assume(z3.Not(z3.Or(df == 17, df == 20, df == 21)))

            def post(kind, v):
                if kind != "ret" or not (v is None or isinstance(v, str)):
                    return False
                if v == "EMPTY":
                    return payload0
                return z3.Not(payload0)
            for mrar in (False, True):
                H.decide(item, "infer-other-%s" % mrar, lambda: pm.bds.infer(fr.msg, mrar),
                         lambda c: H.real_call("pyModeS.bds.infer", c["msg"], mrar), conc, post)
        else:
            mrar = prm["mrar"]
            item.assume(commb)
            labels = R.LABELS_MRAR if mrar else R.LABELS
            F = {lab: pred_term(item, pm, lab, fr) for lab in labels}

            def post(kind, v):
                if kind != "ret" or not (v is None or isinstance(v, str)):
                    return False
                if v == "EMPTY":
                    return payload0
                parts = [] if v is None else v.split(",")
                if parts != sorted(set(parts)) or any(p not in labels for p in parts):
                    return False
                return z3.And([z3.Not(payload0)] + [(F[lab] if lab in parts else z3.Not(F[lab])) for lab in labels])
            H.decide(item, name, lambda: pm.bds.infer(fr.msg, mrar),
                     lambda c: H.real_call("pyModeS.bds.infer", c["msg"], mrar), conc, post)
        return

    if name == "is50or60":
        item.encoded("pyModeS.decoder.bds.is50or60", "pyModeS.decoder.bds.bds50.is50", "pyModeS.decoder.bds.bds60.is60")
        item.assume(commb)
        spd, trk, alt = z3.Reals("spd_ref trk_ref alt_ref")
        item.declare(spd, trk, alt)
        item.real_inputs = [spd, trk, alt]
        item.assume(spd >= 0, spd <= 700, trk >= 0, trk < 360, alt >= -1000, alt <= 50000)
        F50, F60 = pred_term(item, pm, "BDS50", fr), pred_term(item, pm, "BDS60", fr)
        both = z3.And(F50, F60)
        from props.cprlib import fval
        conc2 = lambda m: {"msg": fr.concrete(m), "spd": fval(m, spd), "trk": fval(m, trk), "alt": fval(m, alt)}

        def post(kind, v):
            if kind != "ret":
                return False
            if v is None:
                return z3.Not(both)
            return z3.And(both, z3.BoolVal(v in ("BDS50", "BDS60", "BDS50,BDS60")))
        H.decide(item, "is50or60", lambda: pm.bds.is50or60(fr.msg, SymReal(spd), SymReal(trk), SymReal(alt)),
                 lambda c: H.real_call("pyModeS.bds.is50or60", c["msg"], c["spd"], c["trk"], c["alt"]), conc2, post,
                 cmp=lambda a, b: (a is None) == (b is None))
        item.sat_witness("both", [both])
