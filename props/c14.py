"""C14 - decoders are total and type-guarded on well-formed frames (DESIGN.md section 5 C14)."""
import z3

from spec import domains as D
from symx import core, harness as H
from symx.core import SymReal
from symx.loader import load_repo

META = {
    "bounds": ["every listed function on ONE fully symbolic frame per length: 112 bits (DF, CA, ICAO, 56 ME/MB bits, "
               "parity) and 56 bits, hex case symbolic per digit; pair/reference functions with a second symbolic frame, "
               "concrete timestamps in both orders and symbolic real references in [-90,90]x[-180,180]",
               "functions: every name in adsb.__all__, commb.__all__, surv, allcall, the message-taking functions of "
               "common, bds.infer (mrar both), tell"],
    "outside": ["inputs that are not 14 or 28 hex digits", "the numeric content of results (C07-C13): only shape, "
                "exception type and domain are decided here",
                "cprNL inside position decoders is the extracted staircase (A-NL); libm is uninterpreted"],
    "stubs": ["print -> no-op (tell)", "cprNL staircase", "math.sqrt/atan2/degrees uninterpreted", "aero.* uninterpreted"],
    "assumptions": ["domain table spec/domains.py (from docstrings and DO-260B / Annex 10 message formats)"],
}


def items(tier, seed):
    import random
    rnd = random.Random(seed)
    out = []
    for name in sorted(D.FUNCS):
        spec = D.FUNCS[name]
        for ln in (28, 14):
            if name == "tell" and ln == 28:
                # one work item per DF class / type code: same frames, split only for parallelism
                for tc in range(32):
                    if tc == 29:      # one sub-item per subtype (ME bits 6-7)
                        for k in range(4):
                            out.append(("tell-28-df17-tc29-st%d" % k, {"fn": name, "len": 28, "df": [17], "tc": tc,
                                                                        "pin": [[5, 6], k]}))
                        continue
                    out.append(("tell-28-df17-tc%02d" % tc, {"fn": name, "len": 28, "df": [17], "tc": tc}))
                for k in range(16):   # 2^4 sub-items on the first four field status bits of the MB field
                    out.append(("tell-28-df20-%x" % k, {"fn": name, "len": 28, "df": [20], "pin": [[0, 12, 23, 34], k],
                                                        "weight": 100}))
                out += [("tell-28-df21", {"fn": name, "len": 28, "df": [21]}),
                        ("tell-28-other", {"fn": name, "len": 28, "df": [d for d in range(32) if d not in (17, 20, 21)]})]
                continue
            if name == "commb.cap17" and ln == 28:
                pats = [0, (1 << 24) - 1] + [rnd.getrandbits(24) for _ in range(2 if tier == "quick" else 6)]
                for g in range(6):
                    out.append(("commb.cap17-28-g%d" % g, {"fn": name, "len": 28, "cap_group": g, "patterns": pats}))
                continue
            if spec.get("pair") and ln == 28 and not (tier == "thorough" and name == "adsb.airborne_position"):
                # the CPR fields are concrete (extremes + seeded; 3 sets quick, 10 thorough); DF / TC / parity / every
                # other bit symbolic. thorough additionally runs airborne_position with fully symbolic CPR fields
                # (15 min); position() / surface_position() with symbolic CPR fields exceed 2 h and are left to C03/C05.
                seeds = [(0, 0, 0, 0), (131071, 131071, 131071, 131071)] + \
                    [tuple(rnd.getrandbits(17) for _ in range(4)) for _ in range(1 if tier == "quick" else 8)]
                out.append(("%s-%d" % (name, ln), {"fn": name, "len": ln, "cpr_seeds": seeds, "weight": 50}))
                continue
            out.append(("%s-%d" % (name, ln), {"fn": name, "len": ln,
                                               "weight": 90 if name in ("adsb.callsign", "tell") else 0}))
    # call sequences: a long frame, then a short frame, then another long frame through the same function in one run:
    # every outcome must satisfy the function's claim for ITS frame (no result may depend on an earlier call)
    for name in SEQ_FUNCS if tier == "quick" else SEQ_FUNCS + SEQ_MORE:
        out.append(("%s-seq" % name, {"fn": name, "seq": True, "len": 28}))
    return out


SEQ_FUNCS = ["adsb.typecode", "common.typecode", "adsb.altitude", "adsb.nic_b", "adsb.version", "adsb.nuc_v", "adsb.category",
             "adsb.emergency_state", "adsb.tcas_ra", "adsb.selected_heading", "surv.fs", "allcall.capability", "commb.ovc10",
             "common.allzeros", "common.data", "common.icao"]
SEQ_MORE = ["adsb.altitude05", "adsb.altitude_diff", "adsb.autopilot", "adsb.nic_s", "adsb.nic_a_c", "adsb.nac_v",
            "adsb.emergency_squawk", "adsb.is_emergency", "adsb.vertical_mode", "adsb.target_altitude", "surv.dr", "surv.um",
            "surv.identity", "surv.altitude", "allcall.icao", "commb.is10", "commb.is30", "commb.roll50", "commb.p45",
            "common.df", "common.idcode"]


class _ME:
    """the 56 ME bits of a frame that was built from finer fields"""

    def __init__(self, bits):
        self.bits = bits


def frame(ln, prefix="", cpr=None, me_fields=None):
    """a fully symbolic frame.  The parity field is parametrised as PI = parity(data bits) XOR OV with OV a free 24-bit
    variable: for each data content this is a bijection on the 2^24 parity values, so every frame is still covered,
    and every CRC the code computes collapses to OV in the GF(2) normal form."""
    from spec import crc as SC
    from symx.core import bxor
    if ln == 28 and cpr is not None:
        spec = [("DF", 5), ("CA", 3), ("ICAO", 24), ("TC", 5), ("X", 15), ("T", 1), ("F", 1),
                ("LAT", 17, cpr[0]), ("LON", 17, cpr[1])]
    elif ln == 28 and me_fields is not None:
        spec = [("DF", 5), ("CA", 3), ("ICAO", 24)] + list(me_fields)
    elif ln == 28:
        spec = [("DF", 5), ("CA", 3), ("ICAO", 24), ("ME", 56)]
    else:
        spec = [("DF", 5), ("CA", 3), ("BODY", 24)]
    fields = []
    for it in spec:
        if len(it) == 3:
            fields.append(H.Field(prefix + it[0], it[1], value=it[2]))
        else:
            fields.append(H.Field(prefix + it[0], it[1]))
    ov = H.Field(prefix + "OV", 24)
    data_bits = [b for f in fields for b in f.bits]
    par = SC.parity_of_data_bits(data_bits)
    fr = H.Frame.custom(fields + [("derived", [bxor(p, o) for p, o in zip(par, ov.bits)], None)], prefix=prefix, case="mixed")
    fr.fields["OV"] = ov
    fr.ov = ov
    if ln == 28 and "ME" not in fr.fields:
        fr.fields["ME"] = _ME(fr.bits[32:88])
    return fr


def run_item(item):
    item.cross_check = True      # thorough tier: discharged obligations are re-decided by cvc5
    pm = load_repo()
    from symx import nl
    nl.install(pm)
    from symx import stubs
    stubs.install_cap17_contract(pm)
    stubs.install_summaries(pm)
    prm = item.params
    name, ln = prm["fn"], prm["len"]
    spec = D.FUNCS[name]
    f = D.resolve(pm, spec["path"])
    item.encoded(spec["path"])
    if prm.get("seq"):
        return run_seq(item, pm, name, spec, f)
    if name == "tell":
        import pyModeS.decoder as dec
        dec.__dict__["print"] = lambda *a, **k: None
        core.MERGE_STR_DICT = True
    variants = list(spec.get("variants") or [{}])
    if prm.get("cpr_seeds"):
        variants = [dict(v, cpr=sd) for v in variants for sd in prm["cpr_seeds"]]
    if "cap_group" in prm:
        variants = [{"cap": (prm["cap_group"], pat)} for pat in prm["patterns"]]
    for vi, var in enumerate(variants):
        extra = var.get("args", ())
        kw = var.get("kwargs", {})
        cpr = var.get("cpr")
        if "cap" in var:
            g, pat = var["cap"]
            mf = []
            for k in range(6):
                if k == g:
                    mf.append(("CAP%d_%d" % (k, vi), 4))
                else:
                    mf.append(("CAP%d_%d" % (k, vi), 4, (pat >> (20 - 4 * k)) & 15))
            fr = frame(ln, prefix="v%d_" % vi, me_fields=mf + [("REST", 32)])
        else:
            fr = frame(ln, prefix="v%d_" % vi if cpr else "", cpr=cpr[:2] if cpr else None)
        item.declare(fr, fr.ov)
        if prm.get("df"):
            item.assume(z3.Or([fr["DF"].int() == d for d in prm["df"]]))
        if prm.get("tc") is not None:
            item.assume(core.bits_to_int(fr["ME"].bits[:5]) == prm["tc"])
        if prm.get("pin"):
            idxs, val = prm["pin"]
            for j, ix in enumerate(idxs):
                b = fr["ME"].bits[ix].true()
                item.assume(b if (val >> (len(idxs) - 1 - j)) & 1 else z3.Not(b))
        fr2 = None
        if spec.get("pair"):
            fr2 = frame(ln, prefix="b%d_" % vi if cpr else "b_", cpr=cpr[2:] if cpr else None)
            item.declare(fr2, fr2.ov)
        conc = lambda m, fr=fr, fr2=fr2: {"msg": fr.concrete(m), **({"msg2": fr2.concrete(m)} if fr2 is not None else {})}

        def call_sym(fr=fr, fr2=fr2):
            if fr2 is not None:
                return f(fr.msg, fr2.msg, *extra, **kw)
            return f(fr.msg, *extra, **kw)

        def call_real(c, fr2=fr2):
            if fr2 is not None:
                return H.real_call(spec["path"], c["msg"], c["msg2"], *extra, **kw)
            return H.real_call(spec["path"], c["msg"], *extra, **kw)

        dom = D.domain_term(spec, fr, ln)
        if fr2 is not None:
            dom = z3.And(dom, D.pair_domain_term(spec, fr, fr2, ln, len(extra)))

        def post(kind, v, ctx):
            if kind == "exc":
                return v == "RuntimeError"
            if ctx.conc is not None:
                if "msg2" in ctx.conc and not D.pair_in_domain_concrete(spec, ctx.conc["msg"], ctx.conc["msg2"], len(extra)):
                    return False
                return D.in_domain_concrete(spec, ctx.conc["msg"]) and D.shape_ok(spec, v, name)
            return H.zand(dom, D.shape_ok(spec, v, name))
        H.decide(item, "%s#%d" % (name, vi), call_sym, call_real, conc, post, cmp=D.cmp_loose, maxpaths=spec.get("maxpaths", 20000))


def run_seq(item, pm, name, spec, f):
    frames = [frame(28, prefix="s0_"), frame(14, prefix="s1_"), frame(28, prefix="s2_")]
    for fr in frames:
        item.declare(fr, fr.ov)
    doms = [D.domain_term(spec, fr, ln) for fr, ln in zip(frames, (28, 14, 28))]
    path = spec["path"]

    def run():
        out = []
        for fr in frames:
            try:
                out.append(("ret", f(fr.msg)))
            except core.Unsupported:
                raise
            except Exception as e:      # noqa
                out.append(("exc", type(e).__name__))
        return out
    for p in item.explore(run, maxpaths=60000):
        if p.kind != "ret":
            claim = False
        else:
            cs = []
            for (k, v), dom in zip(p.value, doms):
                if k == "exc":
                    cs.append(v == "RuntimeError")
                else:
                    cs.append(H.zand(dom, D.shape_ok(spec, v, name)))
            claim = H.zand(*cs)

        def replay(model):
            msgs = [fr.concrete(model) for fr in frames]
            r = H.fresh_driver("call_sequence", [[path, [m]] for m in msgs])
            bad = r[0] != "ret"
            if not bad:
                for (k, v), m in zip(r[1], msgs):
                    if k == "exc":
                        bad = bad or v != "RuntimeError"
                    else:
                        bad = bad or not (D.in_domain_concrete(spec, m) and D.shape_ok(spec, v, name))
            return bad, {"calls": msgs}, "%s on the sequence -> %r" % (name, H.jsonable(r[1:2])), r
        item.prove("seq", p.pc, claim, replay)
