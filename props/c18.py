"""C18 - uplink interrogation decoding (DESIGN.md section 5 C18)."""
import z3

from spec import uplink as S
from symx import core, harness as H
from symx.core import HexChar, SymInt, SymStr
from symx.loader import load_repo

META = {
    "bounds": ["interrogations of exactly 56 and 112 bits; address, every data bit and every hex case symbolic; "
               "UF symbolic over 0..31 with all of PC/RR/DI/SD resp. PR/IC/CL symbolic"],
    "outside": [],
    "stubs": [],
    "assumptions": ["uplink AP = parity(data) XOR high 24 coefficients of G(x)A(x) (Annex 10 Vol IV 3.1.2.3.3.2)",
                    "SD sub-fields: DI=0/1/7 IIS 17-20; DI=7 RRS 21-24; DI=1/7 LOS 26; DI=3 SIS 17-22, LSS 23, RRS 24-27"],
}


PARTS = ("uf11-cl01", "uf11-cl2", "uf11-cl3", "uf11-cl4", "uf11-cl567", "sel-di3-lo", "sel-di3-hi", "sel-other", "rest")


def items(tier, seed):
    out = []
    for n in (56, 112):
        out.append(("uplink_icao-%d" % n, {"n": n}))
        for f in ("uf", "bds", "pr", "lockout"):
            out.append(("%s-%d" % (f, n), {"n": n}))
        for f in ("ic", "uplink_fields"):      # many paths (str() of SI/II codes forks): partition the input space
            for part in PARTS:
                out.append(("%s-%d-%s" % (f, n, part), {"n": n, "part": part}))
    # history mode (harness.decide): the same call on an earlier interrogation (other RR / other UF / other CL) first
    out += [("uplink_fields-112-sel-di3-hi@after:b9+b10_13", {"n": 112, "part": "sel-di3-hi"}),
            ("uplink_fields-56-sel-other@after:b9+b10_13", {"n": 56, "part": "sel-other"}),
            ("bds-112@after:b9+b10_13", {"n": 112}), ("ic-56-uf11-cl2@after:b14_16", {"n": 56, "part": "uf11-cl2"}),
            ("lockout-56@after:UF", {"n": 56}), ("pr-56@after:b6_8", {"n": 56})]
    return out


def strnum(v, prefix):
    """decode 'II7' / 'SI63' style results (concrete after str() forks): -> int or None"""
    if isinstance(v, SymStr):
        cs = v.chars
        if not all(isinstance(c, str) for c in cs[:2]):
            return None
        head = "".join(cs[:2])
        if head != prefix or len(cs) != 3 or not isinstance(cs[2], core.TabChar):
            return None
        return cs[2].idx.toint()
    if isinstance(v, str) and v.startswith(prefix) and v[len(prefix):].isdigit() and str(int(v[len(prefix):])) == v[len(prefix):]:
        return int(v[len(prefix):])
    return None


def ic_ok(v, want_prefix, want_val):
    got = strnum(v, want_prefix)
    if got is None:
        return False
    return got == want_val if isinstance(got, int) and not z3.is_expr(want_val) else z3.IntVal(got) == want_val \
        if isinstance(got, int) else got == want_val


def hexdig_ok(v, vals):
    """v is a string of len(vals) upper-case hex digits with the given Int values"""
    if not isinstance(v, (str, SymStr)):
        return False
    cs = core.chars_of(v)
    if len(cs) != len(vals):
        return False
    out = []
    for c, val in zip(cs, vals):
        if isinstance(c, str):
            if c not in "0123456789ABCDEF":
                return False
            out.append(val == int(c, 16))
        elif isinstance(c, HexChar):
            out.append(z3.And(c.val().toint() == val, z3.Or(c.val().toint() < 10, c.upper)))
        else:
            return False
    return z3.And(out)


def run_item(item):
    item.cross_check = True      # thorough tier: discharged obligations are re-decided by cvc5
    pm = load_repo()
    up = pm.decoder.uplink if hasattr(pm.decoder, "uplink") else __import__("pyModeS.decoder.uplink", fromlist=["x"])
    import pyModeS.decoder.uplink as up  # noqa
    name, n = item.name.split("-")[0], item.params["n"]
    item.encoded("pyModeS.decoder.uplink." + name)
    conc = lambda m: {"msg": fr.concrete(m)}
    real = lambda c: H.real_call("pyModeS.decoder.uplink." + name, c["msg"])

    if name == "uplink_icao":
        data = H.Field("data", n - 24)
        A = H.Field("A", 24)
        fr = H.Frame.custom([data, ("derived", S.ap_bits(data.bits, A.bits), None)], case="mixed")
        item.declare(fr, A)
        want = [HexChar(A.bits[4 * i:4 * i + 4], True) for i in range(6)]
        H.decide(item, "uplink_icao", lambda: up.uplink_icao(fr.msg), real,
                 lambda m: {"msg": fr.concrete(m), "A": "%06X" % A.val(m)},
                 lambda k, v: k == "ret" and H.str_eq(v, want))
        return

    # generic interrogation layout; bits 6-32 are interpreted per UF
    fr = H.Frame([("UF", 5), ("b6_8", 3), ("b9", 1), ("b10_13", 4), ("b14_16", 3), ("b17_20", 4), ("b21_22", 2),
                  ("b23", 1), ("b24", 1), ("b25", 1), ("b26", 1), ("b27", 1), ("b28_32", 5), ("rest", n - 32)],
                 case="mixed")
    item.declare(fr)
    F = lambda k: fr[k].int()
    ufv = F("UF")
    UF = z3.If(ufv > 24, 24, ufv)
    sel = z3.Or([UF == u for u in (4, 5, 20, 21)])
    RR = F("b9") * 16 + F("b10_13")           # bits 9-13
    DI = F("b14_16")
    IIS = F("b17_20")
    RRS7 = F("b21_22") * 4 + F("b23") * 2 + F("b24")               # bits 21-24
    SIS = F("b17_20") * 4 + F("b21_22")                              # bits 17-22
    LSS = F("b23")
    RRS3 = F("b24") * 8 + F("b25") * 4 + F("b26") * 2 + F("b27")   # bits 24-27
    LOS = F("b26")
    PR = F("b6_8") * 2 + F("b9")                                    # UF11 bits 6-9
    IC = F("b10_13")                                                # UF11 bits 10-13
    CL = F("b14_16")                                                # UF11 bits 14-16
    bds2 = z3.If(DI == 7, RRS7, z3.If(DI == 3, RRS3, 0))
    ic11_pref_si = z3.And(CL >= 1, CL <= 4)

    def post_uf(k, v):
        return k == "ret" and H.int_eq(v, UF)

    def post_bds(k, v):
        if k != "ret":
            return False
        if v is None:
            return z3.Not(z3.And(sel, RR > 15))
        return H.zand(sel, RR > 15, hexdig_ok(v, [RR - 16, bds2]))

    def post_pr(k, v):
        if k != "ret":
            return False
        if v is None:
            return UF != 11
        return H.zand(UF == 11, H.int_eq(v, PR))

    def ic_claim(v):
        if v is None:
            return z3.Not(z3.Or(UF == 11, z3.And(sel, z3.Or(DI == 0, DI == 1, DI == 7, DI == 3))))
        if isinstance(v, str) and v == "":
            return z3.And(UF == 11, CL > 4)
        alts = []
        ii, si = strnum(v, "II"), strnum(v, "SI")
        if ii is not None:
            alts.append(z3.And(UF == 11, CL == 0, IC == ii))
            alts.append(z3.And(sel, z3.Or(DI == 0, DI == 1, DI == 7), IIS == ii))
        if si is not None:
            alts.append(z3.And(UF == 11, ic11_pref_si, IC + 16 * (CL - 1) == si))
            alts.append(z3.And(sel, DI == 3, SIS == si))
        return z3.Or(alts) if alts else False

    def post_ic(k, v):
        return k == "ret" and ic_claim(v)

    def lock_claim(v):
        if v is None:
            return z3.Not(sel)
        if not isinstance(v, bool) and not isinstance(v, core.SymBool):
            return False
        vt = core.tobool(v)
        want = z3.If(z3.Or(DI == 1, DI == 7), LOS == 1, z3.If(DI == 3, LSS == 1, False))
        return z3.And(sel, vt == want)

    def post_lock(k, v):
        return k == "ret" and lock_claim(v)

    def post_fields(k, v):
        if k != "ret" or not isinstance(v, dict) or set(v) != {"DI", "IC", "LOS", "PR", "RR", "RRS", "BDS"}:
            return False
        cl = []
        # same values as the single-field functions (empty string stands for 'not applicable' in this API)
        cl.append(H.zor(H.zand(UF == 11, H.int_eq(v["PR"], PR)), H.zand(UF != 11, v["PR"] == "" if isinstance(v["PR"], str) else False)))
        icv = v["IC"]
        cl.append(H.zor(ic_claim(None if (isinstance(icv, str) and icv == "") else icv),
                        H.zand(isinstance(icv, str) and icv == "", UF == 11, CL > 4)))
        lo = v["LOS"]
        cl.append(H.zor(lock_claim(lo), H.zand(z3.Not(sel), lo is False)))
        cl.append(H.zor(H.zand(sel, H.int_eq(v["DI"], DI)), H.zand(z3.Not(sel), isinstance(v["DI"], str) and v["DI"] == "")))
        cl.append(H.zor(H.zand(sel, H.int_eq(v["RR"], RR)), H.zand(z3.Not(sel), isinstance(v["RR"], str) and v["RR"] == "")))
        b = v["BDS"]
        cl.append(H.zor(post_bds("ret", None if (isinstance(b, str) and b == "") else b)))
        return H.zand(*cl)

    posts = {"uf": post_uf, "bds": post_bds, "pr": post_pr, "ic": post_ic, "lockout": post_lock,
             "uplink_fields": post_fields}
    part = item.params.get("part")
    if part:
        item.assume({"uf11-cl01": z3.And(UF == 11, CL <= 1), "uf11-cl2": z3.And(UF == 11, CL == 2),
                     "uf11-cl3": z3.And(UF == 11, CL == 3), "uf11-cl4": z3.And(UF == 11, CL == 4),
                     "uf11-cl567": z3.And(UF == 11, CL >= 5),
                     "sel-di3-lo": z3.And(sel, DI == 3, SIS < 32), "sel-di3-hi": z3.And(sel, DI == 3, SIS >= 32),
                     "sel-other": z3.And(sel, DI != 3), "rest": z3.And(UF != 11, z3.Not(sel))}[part])
    f = getattr(up, name)
    H.decide(item, name, lambda: f(fr.msg), real, conc, posts[name])
    item.sat_witness("nonvacuous", [])
