"""C19 - the software demodulator recovers cleanly modulated frames (DESIGN.md section 5 C19).

Bounded in frame CONTENT: the frame bits are concrete (each bit is a data-dependent branch inside the slicer loop, 2^56
paths otherwise); every analogue quantity - each pulse amplitude and each noise sample - is a solver variable.
"""
import random
from fractions import Fraction

import z3

from spec import crc as SC
from symx import core, harness as H
from symx.core import SymReal
from symx.loader import load_repo

META = {
    "bounds": ["frame contents concrete: the repo's test frames plus seeded ones (DF17 with correct parity, DF20/21, "
               "DF4/5/11), 1 or 2 frames per buffer, start offsets of both parities, gaps of at least one frame length",
               "analogue values symbolic reals: pulse amplitudes take 4 independent symbolic levels in [Amin, Amax] with "
               "0.3 <= Amin <= Amax <= 1.4 and noise samples 4 independent symbolic levels in [N/2, N] with "
               "3.162*N <= Amin (10 dB), assigned to the sample positions by a seeded pattern (one variable per sample "
               "made every scanner comparison a 700-variable LRA query: 25 min per frame); one leading window of pure "
               "noise so that the noise-floor estimate sees a signal-free window"],
    "outside": ["frame bits are not symbolic (2^56 paths); noise samples below half the noise level N (each would fork the "
                "scanner on 'sample < min_sig_amp' without changing what it does); frames cut by the end of the buffer; "
                "I/Q magnitude computation and hardware"],
    "stubs": ["RtlReader built with object.__new__ (no SDR); numpy array/reshape/mean over symbolic samples -> exact "
              "list model (window sums / window length); min/max of symbolic sequences -> one fresh value bounded by and "
              "equal to an element"],
    "assumptions": ["PPM at 2 samples per microsecond: preamble pulses at samples 0, 2, 7, 9; bit 1 = (pulse, gap), "
                    "bit 0 = (gap, pulse)"],
}

TEST_FRAMES = ["8D406B902015A678D4D220AA4BDA", "8D4840D6202CC371C32CE0576098", "A0001838CA3E51F0A8000047A36A",
               "A800292DFFBBA9383FFCEB903D01", "5D484FDEA248F5", "2A00516D492B80", "20001718029FCD", "28001A1B1D8FF2",
               "5D484BA898F8C6", "A000083E202CC371C32CE0576090", "2000171806A980"]
# ... index 4 is an all-call reply with an interrogator code in the parity (remainder != 0)


def items(tier, seed):
    rnd = random.Random(seed)
    out = []
    cfgs = [([0], 0), ([4], 1), ([2], 0), ([9], 1), ([10], 0)] if tier == "quick" else \
        [([k], o) for k in range(len(TEST_FRAMES)) for o in (0, 1)] + [([0, 4], 0), ([2, 1], 1), ([5, 3], 0)]
    for k, (frames, off) in enumerate(cfgs):
        out.append(("demod-%s-off%d" % ("_".join(map(str, frames)), off), {"frames": frames, "off": off, "weight": len(frames)}))
    if tier != "quick":
        for s in range(3):
            out.append(("demod-seeded%d" % s, {"frames": [], "seeded": s, "off": s % 2, "weight": 1}))
    out.append(("check_msg", {}))
    return out


def seeded_frame(rnd):
    data = (17 << 83) | rnd.getrandbits(83)
    par = SC.rem_int(data << 24, 112)
    return "%028X" % ((data << 24) | par)


def run_item(item):
    pm = load_repo()
    if item.name == "check_msg":
        return run_check_msg(item, pm)
    import pyModeS.extra.rtlreader as R
    item.encoded("pyModeS.extra.rtlreader.RtlReader._process_buffer", "pyModeS.extra.rtlreader.RtlReader._check_preamble",
                 "pyModeS.extra.rtlreader.RtlReader._calc_noise", "pyModeS.extra.rtlreader.RtlReader._check_msg")
    prm = item.params
    rnd = random.Random(item.seed * 13 + prm.get("seeded", 0))
    frames = [TEST_FRAMES[k] for k in prm["frames"]] or [seeded_frame(rnd)]
    N, Amin, Amax = z3.Reals("N Amin Amax")
    item.declare(N, Amin, Amax)
    item.robust_eps = Fraction(1, 10 ** 6)
    item.assume(Amin >= S_(0.3), Amax <= S_(1.4), Amin <= Amax, N > 0, S_(3.162) * N <= Amin)
    samples, kinds = [], []
    LEVELS = 4
    nlev = [z3.Real("n%d" % k) for k in range(LEVELS)]
    alev = [z3.Real("a%d" % k) for k in range(LEVELS)]
    item.declare(*nlev, *alev)
    for v in nlev:
        item.assume(v >= N / 2, v <= N)
    for v in alev:
        item.assume(v >= Amin, v <= Amax)
    nsym = [SymReal(v) for v in nlev]
    asym = [SymReal(v) for v in alev]

    def noise(n):
        for _ in range(n):
            k = rnd.randrange(LEVELS)
            samples.append(nsym[k])
            kinds.append(("n", nlev[k]))

    npulse = [0]

    def pulse():
        k = npulse[0] % LEVELS if npulse[0] % 40 < LEVELS else rnd.randrange(LEVELS)     # every level occurs in every frame
        npulse[0] += 1
        samples.append(asym[k])
        kinds.append(("p", alev[k]))
    noise(200 + prm["off"])
    for f in frames:
        for k in range(16):
            pulse() if k in (0, 2, 7, 9) else noise(1)
        bits = bin(int(f, 16))[2:].zfill(len(f) * 4)
        for b in bits:
            if b == "1":
                pulse(); noise(1)
            else:
                noise(1); pulse()
        noise(240)
    noise((-len(samples)) % 200)

    def run():
        rd = object.__new__(R.RtlReader)
        rd.signal_buffer = list(samples)
        rd.debug = False
        rd.noise_floor = 1e6
        out = rd._process_buffer()
        return [m[0] for m in out]
    def handle(p):
        """obligation of one path, discharged as soon as the path is found (a reproduced violation ends the exploration)"""
        claim = p.kind == "ret" and p.value == frames

        def replay(model):
            buf = [float(H.frac_of_z3(model.eval(v, model_completion=True))) for _, v in kinds]
            r = H.real_driver("rtl_process", {"buffer": buf})
            bad = r[0] != "ret" or list(r[1]) != frames
            return bad, {"frames": frames, "N": str(H.frac_of_z3(model.eval(N, model_completion=True))),
                         "Amin": str(H.frac_of_z3(model.eval(Amin, model_completion=True))),
                         "Amax": str(H.frac_of_z3(model.eval(Amax, model_completion=True))), "buffer_len": len(buf),
                         "buffer": buf}, "demodulated %r, expected %r" % (H.jsonable(r[1:2]), frames), r
        item.prove("demod", p.pc, claim, replay, path=p)
        if p.kind == "ret" and item.validated < 3:
            item.validate(p, lambda c: H.real_driver("rtl_process", {"buffer": c["buffer"]}),
                          lambda m: {"buffer": [float(H.frac_of_z3(m.eval(v, model_completion=True))) for _, v in kinds]})
        return bool(item.violations)
    item.explore(run, maxpaths=5000, on_path=handle)
    item.sat_witness("reach", [])


def S_(x):
    f = Fraction(str(x))
    return z3.RealVal("%d/%d" % (f.numerator, f.denominator))


def run_check_msg(item, pm):
    """the demodulator never admits a DF17 frame whose checksum is non-zero (all 112 bits symbolic)"""
    import pyModeS.extra.rtlreader as R
    item.encoded("pyModeS.extra.rtlreader.RtlReader._check_msg", "pyModeS.py_common.crc")
    # every DF20/21 (112-bit) and DF4/5/11 (56-bit) frame is admitted whatever its other bits are (their parity field is
    # overlaid with an address / interrogator code, so it is not checked)
    for dfv, nb in ((20, 112), (21, 112), (4, 56), (5, 56), (11, 56)):
        fx = H.Frame([("DF", 5, dfv), ("REST", nb - 5)], prefix="x%d_" % dfv, case="upper")
        item.declare(fx)
        rdx = object.__new__(R.RtlReader)
        H.decide(item, "admit-df%d" % dfv, lambda: rdx._check_msg(fx.msg),
                 lambda c: H.real_driver("rtl_check_msg", c["msg"]), lambda m, fx=fx: {"msg": fx.concrete(m)},
                 lambda k, v: k == "ret" and (v is True or (isinstance(v, core.SymBool) and v.t)))
    fr = H.Frame([("DF", 5, 17), ("REST", 107)], case="upper")
    item.declare(fr)
    rd = object.__new__(R.RtlReader)
    rem = SC.rem_bits(fr.bits)
    zero = z3.And([z3.Not(b.true()) for b in rem if b.atoms or b.c] or [z3.BoolVal(True)])
    paths = item.explore(lambda: rd._check_msg(fr.msg))
    for p in paths:
        if p.kind != "ret":
            claim = False
        elif isinstance(p.value, core.SymBool):
            claim = p.value.t == zero
        else:
            claim = zero if p.value else z3.Not(zero)

        def replay(model):
            msg = fr.concrete(model)
            r = H.real_driver("rtl_check_msg", msg)
            want = SC.rem_int(int(msg, 16), 112) == 0
            return r[0] != "ret" or bool(r[1]) != want, {"msg": msg}, "_check_msg -> %r, remainder zero: %r" % (r[1:2], want), r
        item.prove("check_msg", p.pc, claim, replay)
