"""C07 - altitude codes decode to the Annex 10 altitude (DESIGN.md section 5 C07)."""
import z3

from spec import altitude as S
from symx import core, harness as H
from symx.core import SymInt, SymReal
from symx.loader import load_repo

META = {
    "bounds": ["all 2^13 altitude codes / 2^12 ADS-B fields as solver variables (not enumerated) with every other "
               "frame bit free; DF symbolic over 0..31; TC symbolic over 0..31; frames of 56 and 112 bits"],
    "outside": ["float rounding of N*3.28084: decided separately as the QF_FP lemma 'fp-int(N*3.28084)' for all 12-bit N",
                "the Cython twin (C15)"],
    "stubs": [],
    "assumptions": ["real back end for N*3.28084 (decimal constant); faithfulness to binary64 is the FP lemma item"],
}


def items(tier, seed):
    out = [("altitude13", {}), ("fp-lemma", {})]
    for n in (56, 112):
        out.append(("altcode-%d" % n, {"n": n}))
        out.append(("surv-%d" % n, {"n": n}))
    out += [("bds05", {}), ("adsb", {})]
    # history: the same decoder called on an earlier frame that differs in one field (and letter case) first
    out += [("altcode-112-after", {"n": 112, "after": ["AC"]}), ("altcode-56-after", {"n": 56, "after": ["h"]}),
            ("surv-56-after", {"n": 56, "after": ["AC"]}), ("adsb-after-alt", {"after": ["ALT"]}), ("adsb-after-tc", {"after": ["TC"]})]
    return out


def bools(bits):
    return [b.true() for b in bits]


def alt_post(bits13):
    isnone, feet = S.altitude_spec(bools(bits13))

    def post(k, v):
        if k != "ret":
            return False
        if v is None:
            return isnone
        return H.zand(z3.Not(isnone), H.int_eq(v, feet))
    return post


def run_item(item):
    item.cross_check = True      # thorough tier: discharged obligations are re-decided by cvc5
    pm = load_repo()
    name, prm = item.name, item.params
    if name == "altitude13":
        item.encoded("pyModeS.py_common.altitude", "pyModeS.py_common.gray2alt", "pyModeS.py_common.gray2int")
        s, x, bits = H.symbits("ac", 13)
        item.declare(x)
        H.decide(item, "altitude(bits)", lambda: pm.common.altitude(s),
                 lambda c: H.real_call("pyModeS.common.altitude", c["bits"]),
                 lambda m: {"bits": bin(m.eval(x, model_completion=True).as_long())[2:].zfill(13)}, alt_post(bits))
        isnone, feet = S.altitude_spec(bools(bits))
        item.sat_witness("gillham-legal", [z3.Not(isnone), z3.Not(bits[6].true()), z3.Not(bits[8].true())])
        item.sat_witness("none", [isnone, x != 0])

    elif name == "fp-lemma":
        # int(fl(N * 3.28084)) in binary64 == floor(N * 328084 / 100000) for every 12-bit N  (QF_FP + LIA)
        N = z3.BitVec("N", 12)
        item.declare(N)
        rm = z3.RNE()
        f = z3.fpMul(rm, z3.fpToFP(rm, z3.ZeroExt(20, N), z3.Float64(), signed=False) if False else
                     z3.fpUnsignedToFP(rm, N, z3.Float64()), z3.FPVal(3.28084, z3.Float64()))
        fl = z3.fpRoundToIntegral(z3.RTZ(), f)
        as_bv = z3.fpToUBV(z3.RTZ(), fl, z3.BitVecSort(32))
        want = z3.UDiv(z3.ZeroExt(20, N) * z3.BitVecVal(328084, 32), z3.BitVecVal(100000, 32))

        def replay(m):
            n = m.eval(N, model_completion=True).as_long()
            return int(n * 3.28084) != n * 328084 // 100000, {"N": n}, "int(N*3.28084) != floor(N*328084/100000)"
        item.prove("fp-int(N*3.28084)", [], as_bv == want, replay=replay)
        item.paths += 1

    elif name.startswith("altcode") or name.startswith("surv"):
        n = prm["n"]
        fr = H.Frame([("DF", 5), ("h", 14), ("AC", 13), ("rest", n - 32)], case="mixed")
        item.declare(fr)
        df = fr["DF"].int()
        dfc = z3.If(df > 24, 24, df)
        base_post = alt_post(fr["AC"].bits)
        if name.startswith("altcode"):
            item.encoded("pyModeS.py_common.altcode", "pyModeS.py_common.altitude", "pyModeS.py_common.df")
            ok_df = z3.Or([dfc == d for d in (0, 4, 16, 20)])
            path, f = "pyModeS.common.altcode", pm.common.altcode
        else:
            item.encoded("pyModeS.decoder.surv.altitude", "pyModeS.py_common.altcode")
            ok_df = dfc == 4   # surv is documented for DF4/5; altitude only exists in DF4
            path, f = "pyModeS.surv.altitude", pm.surv.altitude

        def post(k, v):
            if k == "exc":
                return H.zand(v == "RuntimeError", z3.Not(ok_df))
            return H.zand(ok_df, base_post(k, v))
        if prm.get("after"):
            fr0 = H.sibling(fr, prm["after"])
            item.declare(fr0)
            H.decide_after(item, path.split("pyModeS.")[1] + " after an earlier call", fr, fr0,
                           [(path, lambda: f(fr0.msg))], lambda: f(fr.msg), path, post)
            return
        H.decide(item, path.split("pyModeS.")[1], lambda: f(fr.msg), lambda c: H.real_call(path, c["msg"]),
                 lambda m: {"msg": fr.concrete(m)}, post)
        item.sat_witness("df-ok", [ok_df])

    elif name in ("bds05", "adsb") or name.startswith("adsb-after"):
        name = name.split("-")[0]
        fr = H.Frame([("DF", 5), ("CA", 3), ("ICAO", 24), ("TC", 5), ("SS", 2), ("SAF", 1), ("ALT", 12),
                      ("rest", 36), ("PI", 24)], case="mixed")
        item.declare(fr)
        df, tc = fr["DF"].int(), fr["TC"].int()
        is_adsb = z3.Or(df == 17, df == 18)
        b = fr["ALT"].bits
        ac13 = b[:6] + [core.ZERO1] + b[6:]
        baro_post = alt_post(ac13)
        gnss_m = fr["ALT"].int()
        baro = z3.And(is_adsb, tc >= 9, tc <= 18)
        gnss = z3.And(is_adsb, tc >= 20, tc <= 22)
        surf = z3.And(is_adsb, tc >= 5, tc <= 8)
        if name == "bds05":
            item.encoded("pyModeS.decoder.bds.bds05.altitude", "pyModeS.py_common.typecode")
            path, f = "pyModeS.bds.bds05.altitude", pm.bds.bds05.altitude
            dom = z3.Or(baro, gnss)
        else:
            item.encoded("pyModeS.decoder.adsb.altitude", "pyModeS.decoder.bds.bds05.altitude")
            path, f = "pyModeS.adsb.altitude", pm.adsb.altitude
            dom = z3.Or(baro, gnss, surf)

        def post(k, v):
            if k == "exc":
                return H.zand(v == "RuntimeError", z3.Not(dom))
            if v is None:
                return H.zand(baro, baro_post(k, v))
            on_baro = H.zand(baro, baro_post(k, v)) if H.is_int_like(v) else False
            on_gnss = H.zand(gnss, H.real_close(v, z3.ToReal(gnss_m) * z3.RealVal("328084/100000"), 1e-6))
            on_surf = H.zand(surf, H.int_eq(v, 0)) if name == "adsb" and H.is_int_like(v) else False
            return H.zor(on_baro, on_gnss, on_surf)
        if prm.get("after"):
            fr0 = H.sibling(fr, prm["after"])
            item.declare(fr0)
            H.decide_after(item, path.split("pyModeS.")[1] + " after an earlier call", fr, fr0,
                           [(path, lambda: f(fr0.msg))], lambda: f(fr.msg), path, post)
            return
        H.decide(item, path.split("pyModeS.")[1], lambda: f(fr.msg), lambda c: H.real_call(path, c["msg"]),
                 lambda m: {"msg": fr.concrete(m)}, post)
        item.sat_witness("baro", [baro])
        item.sat_witness("gnss", [gnss])


