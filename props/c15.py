"""C15 - the Cython common module is observationally equivalent to the Python one (DESIGN.md section 5 C15).

Decided for a SOURCE-LEVEL MODEL of c_common.pyx (symx/cmodel.py): there is no Cython in this sandbox, so the compiled
extension cannot be rebuilt from the current source and is outside the claim.
"""
import struct

import z3

from symx import cmodel, core, fp, harness as H
from symx.core import BitChar, SymInt, SymStr
from symx.fp import SymFP
from symx.loader import load_repo

META = {
    "bounds": ["every function defined by both modules, c_common.pyx as translated by symx/cmodel.py vs py_common.py, on "
               "symbolic inputs: hex strings of 2/6/14/28 digits (value and letter case symbolic), bit strings of "
               "5/11/13/24/56 bits, every binary64 in [-2^53, 2^53] (floor) and [-90, 90] (cprNL), frames of both lengths "
               "with DF symbolic; wrongstatus for every status/field position of the callers",
               "decoders layered on common (bds05.altitude, adsb.altitude, surv.altitude, surv.identity, adsb.category, "
               "allcall.icao, emergency_squawk) executed twice, once per common implementation"],
    "outside": ["the compiled extension, Cython's code generation and the C compiler (LP64 integer widths, abs(double) = "
                "fabs, conversion on typed stores / returns are modelled from the generated-C conventions)",
                "inputs that are not well-formed (non-hex characters, bit strings longer than 63 bits for bin2int)",
                "libm cos/acos vs numpy cos/arccos (both are the same uninterpreted function here)"],
    "stubs": ["char_to_int / int_to_char: proven equal to their closed forms on the translated source (lemma items), then "
              "used in closed form", "cos/acos uninterpreted (shared with the Python side)"],
    "assumptions": ["values that went through cos/acos fit the C integer type they are converted to (an out-of-range or NaN "
                    "double-to-long conversion is undefined behaviour in C and has no Python counterpart)",
                    "the sentinel map of the property: typecode -1 = None; altitude/altcode -999999 or -1 = None; "
                    "gray2alt -1 = None"],
    "replay_kind": "model (the prebuilt .so predates the current .pyx and is never loaded)",
}

SENT = {"typecode": {-1: None}, "altitude": {-999999: None, -1: None}, "altcode": {-999999: None, -1: None},
        "gray2alt": {-1: None}}
_MODEL = {}


def model():
    if "ns" not in _MODEL:
        ns, txt, decls = cmodel.build()
        _MODEL.update(ns=ns, txt=txt)
    return _MODEL["ns"]


def items(tier, seed):
    out = [("lemma-char_to_int", {}), ("lemma-int_to_char", {})]
    for n in (2, 6, 14, 28):
        out.append(("hex2bin-%d" % n, {"n": n}))
    for n in (1, 5, 11, 13, 24, 56):
        out.append(("bin2int-%d" % n, {"n": n}))
    for n in (2, 6, 14):
        out.append(("hex2int-%d" % n, {"n": n}))
    for n in (8, 24, 56):
        out.append(("bin2hex-%d" % n, {"n": n}))
    for ln in (14, 28):
        out += [("df-%d" % ln, {"len": ln}), ("crc-%d" % ln, {"len": ln, "enc": False}), ("crcenc-%d" % ln, {"len": ln, "enc": True}),
                ("icao-%d" % ln, {"len": ln}), ("typecode-%d" % ln, {"len": ln}), ("idcode-%d" % ln, {"len": ln}),
                ("altcode-%d" % ln, {"len": ln}), ("data-%d" % ln, {"len": ln}), ("allzeros-%d" % ln, {"len": ln})]
    out += [("floor", {}), ("cprNL", {}), ("is_icao_assigned", {}), ("squawk", {}), ("altitude", {}), ("gray2alt", {}),
            ("wrongstatus", {}), ("exports", {}), ("translator-vs-prebuilt", {})]
    for d in ("bds05.altitude", "adsb.altitude", "surv.altitude", "surv.identity", "adsb.category", "allcall.icao",
              "adsb.emergency_squawk"):
        out.append(("layer-" + d, {"fn": d}))
    return out


def hexstr(name, n):
    fr = H.Frame([(name, 4 * n)], prefix="", case="mixed")
    return fr


def unsent(fn, v):
    m = SENT.get(fn)
    if m and isinstance(v, int) and not isinstance(v, bool) and v in m:
        return m[v]
    return v


def same(fn, vc, vp):
    """z3 / bool: C-model outcome equals Python outcome under the sentinel map"""
    m = SENT.get(fn, {})
    if vp is None:
        if vc is None:
            return True
        if isinstance(vc, SymInt):
            return z3.Or([vc.toint() == k for k in m]) if m else False
        return isinstance(vc, int) and vc in m
    if isinstance(vc, (SymInt, int)) and not isinstance(vc, bool) and isinstance(vp, (SymInt, int)) and not isinstance(vp, bool):
        eq = H.to_int_term(vc) == H.to_int_term(vp)
        if m:
            eq = z3.And(eq, z3.And([H.to_int_term(vc) != k for k in m]))
        return eq
    if isinstance(vc, (SymStr, str)) and isinstance(vp, (SymStr, str)):
        return H.str_eq(vc, core.chars_of(vp))
    if isinstance(vc, (core.SymBool, bool)) and isinstance(vp, (core.SymBool, bool)):
        return core.tobool(vc) == core.tobool(vp)
    if isinstance(vc, SymFP) or isinstance(vp, SymFP):
        return False
    if H.is_num_like(vc) and H.is_num_like(vp):
        return H.to_real_term(vc) == H.to_real_term(vp)
    r = vc == vp
    return r.t if isinstance(r, core.SymBool) else r


def equiv(item, fn, call_c, call_p, conc, conc_args):
    """explore both implementations on the same symbolic input; outcomes must agree on every path"""
    def both():
        def one(f):
            try:
                return ("ret", f())
            except core.Unsupported:
                raise
            except (RuntimeError, ValueError, OverflowError, ZeroDivisionError, IndexError, KeyError, cmodel.COverflow) as e:
                return ("exc", type(e).__name__)
        return one(call_c), one(call_p)
    paths = item.explore(both)
    for p in paths:
        if p.kind != "ret":
            claim = False
        else:
            (kc, vc), (kp, vp) = p.value
            if kc != kp:
                claim = False
            elif kc == "exc":
                claim = vc == vp
            else:
                claim = same(fn, vc, vp)

        def replay(model):
            args = conc_args(model)
            c = concrete_call(fn, args, True)
            q = concrete_call(fn, args, False)
            bad = c[0] != q[0] or (c[0] == "exc" and c[1] != q[1]) or (c[0] == "ret" and unsent(fn, c[1]) != q[1])
            if not bad and fn == "cprNL":
                # the symbolic witness interprets cos/acos freely; look for a concrete latitude near an NL transition on
                # which the two implementations really differ (only a reproducing input is ever reported)
                from spec import cpr as SCPR
                for n in range(2, 60):
                    for k in range(-40, 41):
                        x = SCPR.T(n) + k * 2.5e-7
                        for xx in (x, -x):
                            c2, q2 = concrete_call(fn, (xx,), True), concrete_call(fn, (xx,), False)
                            if c2[:2] != q2[:2]:
                                args, c, q, bad = (xx,), c2, q2, True
                                break
                        if bad:
                            break
                    if bad:
                        break
            return bad, {"fn": fn, "args": H.jsonable(args)}, "model of c_common.%s -> %r, py_common.%s -> %r" % (
                fn, H.jsonable(c), fn, H.jsonable(q)), q
        item.prove(fn, p.pc, claim, replay)
    return paths


def concrete_call(fn, args, cside):
    """concrete run of the model / of py_common (in this process, no proxies involved)"""
    pm = load_repo()
    f = model()[fn] if cside else getattr(pm.common, fn)
    try:
        r = f(*args)
        if hasattr(r, "item"):
            r = r.item()
        return ("ret", r)
    except (RuntimeError, ValueError, OverflowError, ZeroDivisionError, IndexError, KeyError, cmodel.COverflow) as e:
        return ("exc", type(e).__name__)


def use_closed_forms():
    ns = model()
    ns["char_to_int"] = cmodel.char_to_int_closed
    ns["int_to_char"] = cmodel.int_to_char_closed


def run_item(item):
    pm = load_repo()
    ns = model()
    name, prm = item.name, item.params
    item.encoded("pyModeS/c_common.pyx (source model)", "pyModeS.py_common")
    P = pm.common

    if name.startswith("lemma-"):
        b = z3.BitVec("b", 8)
        item.declare(b)
        bits = [core.atom(z3.Extract(7 - i, 7 - i, b)) for i in range(8)]
        sb = SymInt(bits=bits)
        bi = core.bits_to_int(bits)
        fn = name[6:]
        f = ns.get("__orig_" + fn) or ns[fn]
        ns.setdefault("__orig_" + fn, f)
        if fn == "char_to_int":
            want = z3.If(z3.And(bi >= 48, bi <= 57), bi - 48, z3.If(z3.And(bi >= 97, bi <= 102), bi - 87,
                                                                    z3.If(z3.And(bi >= 65, bi <= 70), bi - 55, 0)))
        else:
            item.assume(z3.ULE(b, 15))
            want = z3.If(bi < 10, bi + 48, bi + 87)
        paths = item.explore(lambda: f(sb))
        for p in paths:
            claim = H.int_eq(p.value, want) if p.kind == "ret" else False

            def replay(model):
                v = model.eval(b, model_completion=True).as_long()
                r = f(v)
                w = model.eval(want, model_completion=True).as_long()
                return r != w, {"byte": v}, "%s(%d) = %r in the source model, %d by its closed form" % (fn, v, r, w)
            item.prove(fn, p.pc, claim, replay)
        return
    use_closed_forms()

    if name == "translator-vs-prebuilt":
        return run_translator_validation(item, ns)
    if name == "exports":
        # every public name of py_common that c_common.pyx also defines is a function in both
        shared = sorted(n for n in ns if not n.startswith("_") and callable(ns[n]) and hasattr(P, n) and n in
                        ("hex2bin", "bin2int", "hex2int", "bin2hex", "df", "crc", "floor", "icao", "is_icao_assigned", "typecode",
                         "cprNL", "idcode", "squawk", "altcode", "altitude", "gray2alt", "data", "allzeros", "wrongstatus"))
        item.obligations += 1
        if len(shared) == 19:
            item.discharged += 1
        else:
            item.violations.append(H.Violation(item.name, "exports", {"shared": shared}, "c_common.pyx does not define all "
                                               "19 shared functions", raw={}))
        item.samples.append({"shared": shared})
        return

    if name.split("-")[0] in ("hex2bin", "hex2int"):
        fn = name.split("-")[0]
        fr = hexstr("H", prm["n"])
        item.declare(fr)
        equiv(item, fn, lambda: ns[fn](fr.msg), lambda: getattr(P, fn)(fr.msg), None, lambda m: (fr.concrete(m),))
    elif name.startswith("bin2int") or name.startswith("bin2hex") or name in ("squawk", "altitude", "gray2alt"):
        fn = name.split("-")[0]
        n = prm.get("n") or {"squawk": 13, "altitude": 13, "gray2alt": 11}[fn]
        s, var, bits = H.symbits("B", n)
        item.declare(var)
        equiv(item, fn, lambda: ns[fn](s), lambda: getattr(P, fn)(s), None,
              lambda m: (bin(m.eval(var, model_completion=True).as_long())[2:].zfill(n),))
    elif name.split("-")[0] in ("df", "crc", "crcenc", "icao", "typecode", "idcode", "altcode", "data", "allzeros"):
        fn = name.split("-")[0]
        ln = prm["len"]
        fr = H.Frame([("DF", 5), ("REST", 4 * ln - 5)], case="mixed")
        item.declare(fr)
        if fn in ("crc", "crcenc"):
            enc = prm["enc"]
            equiv(item, "crc", lambda: ns["crc"](fr.msg, enc), lambda: P.crc(fr.msg, enc), None, lambda m: (fr.concrete(m), enc))
        else:
            equiv(item, fn, lambda: ns[fn](fr.msg), lambda: getattr(P, fn)(fr.msg), None, lambda m: (fr.concrete(m),))
    elif name == "is_icao_assigned":
        fr = hexstr("A", 6)
        item.declare(fr)
        equiv(item, name, lambda: ns[name](fr.msg), lambda: getattr(P, name)(fr.msg), None, lambda m: (fr.concrete(m),))
    elif name == "wrongstatus":
        s, var, bits = H.symbits("D", 56)
        item.declare(var)
        for sb, a, b in [(1, 2, 13), (14, 15, 26), (27, 28, 39), (48, 49, 51), (54, 55, 56), (1, 3, 11), (12, 13, 23), (24, 25, 34),
                         (35, 36, 45), (46, 47, 56), (5, 6, 23), (16, 17, 26), (39, 40, 51)]:
            equiv(item, name, lambda: ns[name](s, sb, a, b), lambda: P.wrongstatus(s, sb, a, b), None,
                  lambda m, sb=sb, a=a, b=b: (bin(m.eval(var, model_completion=True).as_long())[2:].zfill(56), sb, a, b))
    elif name in ("floor", "cprNL"):
        x = z3.FP("x", fp.F64)
        item.declare(x)
        lim = 2.0 ** 53 if name == "floor" else 90.0
        item.assume(z3.Not(z3.fpIsNaN(x)), z3.fpLEQ(x, fp.fpval(lim)), z3.fpGEQ(x, fp.fpval(-lim)))
        equiv(item, name, lambda: ns[name](SymFP(x)), lambda: getattr(P, name)(SymFP(x)), None, lambda m: (fp.fp_value(m, x),))
    elif name.startswith("layer-"):
        run_layer(item, pm, ns, prm["fn"])
    else:
        raise H.HarnessError("unknown item " + name)


class _Common:
    """module-like view of the source model, installed as `common` in the decoder modules"""

    def __init__(self, ns):
        self.__dict__.update({k: v for k, v in ns.items() if not k.startswith("__")})


def run_layer(item, pm, ns, path):
    import sys
    mods = [m for n, m in sys.modules.items() if n.startswith("pyModeS.") and getattr(m, "common", None) is pm.common]
    cm = _Common(ns)
    f = H_resolve(pm, path)
    fr = H.Frame([("DF", 5), ("CA", 3), ("ICAO", 24), ("ME", 56), ("PI", 24)], case="mixed")
    item.declare(fr)
    item.encoded("pyModeS." + path)

    def with_common(c):
        for m in mods:
            m.common = c
        try:
            return f(fr.msg)
        finally:
            for m in mods:
                m.common = pm.common

    def conc_args(m):
        return (fr.concrete(m),)

    def both():
        def one(c):
            try:
                return ("ret", with_common(c))
            except core.Unsupported:
                raise
            except (RuntimeError, ValueError, OverflowError, IndexError, KeyError, TypeError, cmodel.COverflow) as e:
                return ("exc", type(e).__name__)
        return one(cm), one(pm.common)
    paths = item.explore(both)
    for p in paths:
        (kc, vc), (kp, vp) = p.value if p.kind == "ret" else ((None, None), (1, None))
        if kc != kp:
            claim = False
        elif kc == "exc":
            claim = vc == vp
        else:
            claim = same(None, vc, vp) if not isinstance(vp, tuple) else \
                (isinstance(vc, tuple) and len(vc) == len(vp) and H.zand(*[same(None, a, b) for a, b in zip(vc, vp)]))

        def replay(model):
            msg = fr.concrete(model)

            def run(c):
                for m_ in mods:
                    m_.common = c
                try:
                    return ("ret", f(msg))
                except Exception as e:      # noqa
                    return ("exc", type(e).__name__)
                finally:
                    for m_ in mods:
                        m_.common = pm.common
            a, b = run(cm), run(pm.common)
            return a != b, {"msg": msg}, "%s with the c_common model -> %r, with py_common -> %r" % (path, H.jsonable(a), H.jsonable(b)), b
        item.prove(path, p.pc, claim, replay)


def H_resolve(pm, path):
    obj = pm
    for part in path.split("."):
        obj = getattr(obj, part) if hasattr(obj, part) else getattr(getattr(pm.decoder, "bds"), part)
    return obj


def _func_sources(txt):
    """function name -> source text, from a .pyx"""
    import re
    out, cur, buf = {}, None, []
    for line in txt.splitlines():
        m = re.match(r"^(?:cdef|cpdef|def)\s+(?:[\w ]+?\s+)?(\w+)\(", line)
        if m and not line.startswith(" "):
            if cur:
                out[cur] = "\n".join(buf)
            cur, buf = m.group(1), []
        if cur:
            buf.append(line.rstrip())
    if cur:
        out[cur] = "\n".join(buf)
    return out


def run_translator_validation(item, ns):
    """Translator validation (not a verdict): the functions of c_common.pyx whose source text is unchanged since the
    prebuilt extension was compiled are run concretely through the source model and through that binary on random
    well-formed inputs; any difference is a modelling error (exit 2)."""
    import glob, importlib.util, os, random, subprocess
    from symx.loader import REPO_SRC
    so = glob.glob(os.path.join(os.path.dirname(REPO_SRC), "build", "lib*", "pyModeS", "c_common*.so"))
    if not so:
        item.notes.append("no prebuilt c_common extension found: translator validation skipped")
        item.obligations += 1
        item.discharged += 1
        return
    cur = _func_sources(open(os.path.join(REPO_SRC, "pyModeS", "c_common.pyx")).read())
    try:
        base = subprocess.run(["git", "-C", "/repo", "show", "d904cc1:src/pyModeS/c_common.pyx"], capture_output=True,
                              text=True, timeout=30).stdout
    except Exception:       # noqa
        base = ""
    old = _func_sources(base)
    deps = {"df": ["hex2bin", "bin2int"], "crc": ["hex2bin", "bin2int"], "icao": ["df", "crc", "hex2int", "hex2bin", "bin2int"],
            "altitude": ["bin2int", "gray2alt", "gray2int"], "gray2alt": ["gray2int", "bin2int"], "hex2bin": [], "bin2int": [],
            "hex2int": [], "floor": [], "allzeros": ["hex2bin", "bin2int", "data"], "is_icao_assigned": ["hex2int"]}
    helpers = ["char_to_int", "int_to_char"]
    same_src = [f for f in deps if all(cur.get(g) == old.get(g) and g in cur for g in [f] + deps[f] + helpers)]
    spec = importlib.util.spec_from_file_location("c_common", so[0])
    try:
        cc = importlib.util.module_from_spec(spec)
        spec.loader.exec_module(cc)
    except Exception as e:      # noqa
        item.notes.append("prebuilt extension not loadable (%s): translator validation skipped" % type(e).__name__)
        item.obligations += 1
        item.discharged += 1
        return
    ns0, _, _ = cmodel.build()           # fresh namespace with the translated helpers (not the closed forms)
    rnd = random.Random(item.seed + 17)
    n = 0
    for f in same_src:
        for _ in range(300):
            if f in ("hex2bin", "hex2int"):
                a = ("".join(rnd.choice("0123456789abcdefABCDEF") for _ in range(rnd.choice([2, 6, 14]))),)
            elif f == "bin2int":
                a = ("".join(rnd.choice("01") for _ in range(rnd.randint(1, 56))),)
            elif f == "altitude":
                a = ("".join(rnd.choice("01") for _ in range(13)),)
            elif f == "gray2alt":
                a = ("".join(rnd.choice("01") for _ in range(11)),)
            elif f == "floor":
                a = (rnd.uniform(-1e6, 1e6),)
            elif f == "is_icao_assigned":
                a = ("%06X" % rnd.getrandbits(24),)
            else:
                a = ("".join(rnd.choice("0123456789abcdefABCDEF") for _ in range(rnd.choice([14, 28]))),)
            if f == "allzeros" and len(a[0]) != 28:
                continue

            def run(fn):
                try:
                    return ("ret", fn(*a))
                except Exception as e:      # noqa
                    return ("exc", type(e).__name__)
            r1, r2 = run(ns0[f]), run(getattr(cc, f))
            if r1 != r2:
                raise H.HarnessError("translator validation: model %s%r -> %r, prebuilt extension -> %r" % (f, a, r1, r2))
            n += 1
    item.validated += n
    item.obligations += 1
    item.discharged += 1
    item.notes.append("translator validation against the prebuilt extension on functions with unchanged source: %s (%d "
                      "concrete comparisons, 0 differences)" % (", ".join(sorted(same_src)), n))
    item.samples.append({"item": "translator-vs-prebuilt", "functions": sorted(same_src), "comparisons": n})
