"""C17 - live aircraft table: robust, correct positions, bounded staleness (DESIGN.md section 5 C17).

One inductive step: the table is put into an ARBITRARY state satisfying the representation invariant I (below), one
process_raw() call with one symbolic message is executed on the real code, and the obligations are (1) no exception,
(2) I holds again, (3) the staleness bounds, (4) the Comm-B gate, (5) position accuracy under the 600 kt motion bound.
Because the pre-state is arbitrary-within-I, (1)-(4) extend to message histories of any length.

I(record): 'live' == int('t'); 't' <= time of the call; key 0 present <=> 't0' present, and then it is a DF17/18 frame with
5 <= TC <= 18, CPR format 0 and the record's address (same for 1 / 't1'); 'tpos' present => 'lat', 'lon' are numbers and
'tpos' <= 't'; 'ver' is None or 0..7; 'nic_s', 'nic_a', 'nic_bc' when present are 0/1.
"""
import math
import random
from fractions import Fraction

import z3

from props import cprlib as L
from spec import cpr as S
from symx import core, harness as H, nl, stubs
from symx.core import SymInt, SymReal
from symx.loader import load_repo

META = {
    "bounds": ["one process_raw() step from an arbitrary state satisfying the invariant I (module docstring): the record of "
               "the addressed aircraft is absent or present in one of the enumerated shapes (no position / stored frame of "
               "the other parity / stored position, ADS-B version None, 1, 2 with its NIC supplements), every numeric "
               "content (times, positions, stored frame bits) symbolic; a second, silent aircraft with symbolic times",
               "message: type code concrete per work item (all 32), CPR format concrete, everything else symbolic; hex "
               "case symbolic per digit; addresses concrete (dictionary keys); in the totality items the 17-bit CPR "
               "fields of the message and of the stored frame are seeded concrete values (their arithmetic is decided "
               "in the pos* items and in C03-C05/C14)",
               "position accuracy: per NL band (quick: 6 bands, thorough: all), motion box |dlat| <= v*dt and "
               "|dlon| <= v*dt/cos(lat_max) for v = 600 kt, dt < 180 s (reference path) / < 10 s (pair path)"],
    "outside": ["more than 2 aircraft in the table; file dump (dumpto); the pipe loop of run()",
                "surface positions decoded against the receiver location when the target is more than 45 NM from it",
                "type codes 20-22 are not used for positions by the table (no claim)",
                "stored longitude compared modulo 360 (the reference decoder returns lon_ref-near values such as 180.1)",
                "longitude accuracy of 0.001 deg poleward of ~86.5 deg, where one CPR longitude step (360/(ni*2^17), ni <= 2) "
                "is itself larger: one step is required there",
                "surface targets poleward of 88.5 deg in the reference path (30 NM of motion spans more than half a "
                "90-degree longitude zone there)",
                "liveness of position updates (a surface message without speed/track is skipped by the table before its "
                "position is looked at): the claim is about what is stored when an update happens"],
    "stubs": ["cprNL staircase (A-NL)", "math / aero uninterpreted functions as in C09 / C12", "isXX summaries"],
    "assumptions": ["representation invariant I; DO-260B encoder for the position obligations; non-decreasing timestamps"],
}

ICAO_A, ICAO_B = 0x4840D6, 0xA1B2C3
VERSIONS = [("vN", None, {}), ("v1", 1, {"nic_s": True}), ("v2", 2, {"nic_a": True, "nic_bc": True}), ("v1x", 1, {}), ("v2x", 2, {})]


def items(tier, seed):
    out = []
    rnd = random.Random(seed)
    for tc in range(32):
        for shape in ("absent", "fresh", "pair", "pos"):
            vers = VERSIONS if tier == "thorough" else [VERSIONS[(tc + k) % len(VERSIONS)] for k in (0, 2)]
            for vn, ver, sup in vers:
                if shape == "absent" and vn != "vN":
                    continue
                out.append(("total-tc%02d-%s-%s" % (tc, shape, vn), {"tc": tc, "shape": shape, "ver": vn, "F": (tc + len(vn)) % 2}))
    out += [("evict-adsb", {}), ("evict-commb", {}), ("batch-2ac-F0", {"F": 0}), ("batch-2ac-F1", {"F": 1})]
    for case in ("upper", "lower", "mixed"):
        out += [("commb-absent-" + case, {"case": case})]
        if tier == "thorough" or case == "mixed":
            out += [("commb-present-" + case, {"case": case, "weight": 50})]
    bl = list(range(1, 60)) if tier == "thorough" else [1, 2, 30, 58, 59, rnd.choice(range(3, 58))]
    for n in bl:
        for sg in ("N", "S"):
            for kind in ("air", "surf"):
                for F in ((0, 1) if tier == "thorough" else ((n + (sg == "N")) % 2,)):
                    out.append(("posref-%s-n%02d-%s-F%d" % (kind, n, sg, F), {"n": n, "sign": sg, "kind": kind, "F": F, "weight": 5}))
            for F in ((0, 1) if tier == "thorough" else ((n + (sg == "S")) % 2,)):
                if tier != "thorough" and n == 59 and sg == "S":
                    continue          # the heaviest single item (4 min); thorough tier only
                out.append(("posglob-air-n%02d-%s-F%d" % (n, sg, F), {"n": n, "sign": sg, "kind": "air", "F": F,
                                                                      "weight": 60 if n >= 57 else 20}))
    # outside the time windows: a reference older than 180 s / a pair older than 10 s must NOT be used
    for n in ([30, 58] if tier == "quick" else [1, 2, 17, 30, 45, 58, 59]):
        out.append(("posref-late-air-n%02d" % n, {"n": n, "sign": "N", "kind": "air", "F": n % 2, "late": True, "weight": 5}))
        out.append(("posref-late-surf-n%02d" % n, {"n": n, "sign": "S", "kind": "surf", "F": (n + 1) % 2, "late": True, "weight": 5}))
        for F in (0, 1):      # a stale even frame with a new odd one AND the mirrored order
            out.append(("posglob-late-air-n%02d-F%d" % (n, F), {"n": n, "sign": "N" if F else "S", "kind": "air", "F": F,
                                                                "late": True, "weight": 20}))
    return out


def mk_decoder(pm, acs, lat0=None, lon0=None):
    import pyModeS.streamer.decode as D
    d = object.__new__(D.Decode)
    d.acs = acs
    d.lat0, d.lon0 = lat0, lon0
    d.t = 0
    d.cache_timeout = 60
    d.dumpto = None
    return d


def blank_record(icao):
    rec = {k: None for k in ("live", "call", "lat", "lon", "alt", "gs", "trk", "roc", "tas", "roll", "rtrk", "ias", "mach",
                             "hdg", "ver", "HPL", "RCu", "RCv", "HVE", "VVE", "Rc", "VPL", "EPU", "VEPU", "HFOMr", "VFOMr",
                             "PE_RCu", "PE_VPL", "hum44", "p44", "temp44", "turb44", "wind44")}
    rec["icao"] = icao
    return rec


def adsb_frame(prefix, icao, tc=None, F=None, case="mixed", cpr=None):
    spec = [("DF", 5), ("CA", 3), ("ICAO", 24, icao), ("TC", 5) if tc is None else ("TC", 5, tc)]
    spec += [("X", 15), ("T", 1), ("F", 1) if F is None else ("F", 1, F)]
    spec += [("LAT", 17, "int"), ("LON", 17, "int")] if cpr is None else [("LAT", 17, cpr[0]), ("LON", 17, cpr[1])]
    spec += [("PI", 24)]
    return H.Frame(spec, prefix=prefix, case=case)


def run_item(item):
    pm = load_repo()
    nl.install(pm)
    stubs.install_cap17_contract(pm)
    stubs.install_summaries(pm)
    item.robust_eps = L.EPS
    name = item.name
    if name.startswith("total-"):
        return run_total(item, pm)
    if name.startswith("evict-"):
        return run_evict(item, pm)
    if name.startswith("batch-"):
        return run_batch(item, pm)
    if name.startswith("commb-"):
        return run_commb(item, pm)
    if name.startswith("posref-"):
        return run_posref(item, pm)
    return run_posglob(item, pm)


def summary(acs):
    return {"keys": sorted(acs), "t": {k: v.get("t") for k, v in acs.items()},
            "lat": {k: v.get("lat") for k, v in acs.items()}, "lon": {k: v.get("lon") for k, v in acs.items()},
            "live": {k: v.get("live") for k, v in acs.items()}, "tpos": {k: v.get("tpos") for k, v in acs.items()}}


class _P:
    """a path whose outcome is the table summary (for translator validation against the replay driver)"""

    def __init__(self, p, value):
        self.pc, self.kind, self.value, self.margins, self.floors = p.pc, p.kind, value, p.margins, p.floors


def validate_step(item, p, acs, mkarg, every=7):
    item._vcount = getattr(item, "_vcount", 0) + 1
    if item._vcount % every != 1 or p.kind != "ret":
        return
    item.validate(_P(p, summary(acs)), lambda c: H.real_driver("decode_step", c["arg"]), lambda m: {"arg": mkarg(m)})


def key_a():
    return "%06X" % ICAO_A


def invariant_after(rec, t_term):
    """I on a record after the step (python bools / z3 terms combined)"""
    cs = []
    live, t = rec.get("live"), rec.get("t")
    if not H.is_int_like(live) or not H.is_num_like(t):
        return False
    tt = H.to_real_term(t)
    cs.append(H.to_int_term(live) == z3.ToInt(tt))
    for k in (0, 1):
        if (k in rec) != (("t%d" % k) in rec):
            return False
    if "tpos" in rec:
        if not (H.is_num_like(rec.get("lat")) and H.is_num_like(rec.get("lon")) and H.is_num_like(rec["tpos"])):
            return False
        cs.append(H.to_real_term(rec["tpos"]) <= tt)
    return z3.And(cs)


def sym_state(item, pm, shape, vn, t_now, prefix="s_", other_F=None, icao=ICAO_A, cpr=None):
    """record of aircraft A before the step, arbitrary within I"""
    if shape == "absent":
        return None, {}
    rec = blank_record("%06X" % icao)
    tr = z3.Real(prefix + "t")
    item.declare(tr)
    item.assume(tr >= 0, tr <= t_now)
    rec["t"] = SymReal(tr)
    rec["live"] = SymInt(it=z3.ToInt(tr), lo=0, hi=1 << 40)
    rec["tc"] = 11
    extra = {"t": tr}
    ver = {v[0]: v for v in VERSIONS}[vn]
    rec["ver"] = ver[1]
    for k in ver[2]:
        b = z3.Int(prefix + k)
        item.declare(b)
        item.assume(b >= 0, b <= 1)
        rec[k] = SymInt(it=b, lo=0, hi=1)
    if shape in ("pair", "pos"):
        # a stored frame of the other parity (and sometimes of the same one)
        of = other_F if other_F is not None else 0
        fr = adsb_frame(prefix + "o_", icao, F=of, case="upper", cpr=cpr)
        item.declare(fr)
        tc = fr["TC"].int()
        item.assume(L.adsb_df(fr), tc >= 5, tc <= 18)
        to = z3.Real(prefix + "to")
        item.declare(to)
        item.assume(to >= 0, to <= tr)
        rec[of] = fr.msg
        rec["t%d" % of] = SymReal(to)
        extra.update(stored=fr, to=to)
    if shape == "pos":
        tp, la, lo = z3.Reals("%stpos %slat %slon" % (prefix, prefix, prefix))
        item.declare(tp, la, lo)
        item.assume(tp >= 0, tp <= tr, la >= -90, la <= 90, lo >= -540, lo <= 540)
        if cpr is not None:
            # totality items: the stored position is free inside a seeded 2 x 2 degree box (keeps the NL forks few);
            # arbitrary stored positions are covered by the posref items and C04
            rr = random.Random(cpr[0] * 7 + cpr[1])
            c0 = rr.choice([-89.5, -45.3, -0.4, 0.3, 37.9, 86.9, 89.4])
            d0 = rr.choice([-179.6, -90.2, -0.3, 0.4, 120.7, 179.5])
            item.assume(la >= c0 - 1, la <= c0 + 1, lo >= d0 - 1, lo <= d0 + 1)
        rec["tpos"], rec["lat"], rec["lon"] = SymReal(tp), SymReal(la), SymReal(lo)
        extra.update(tpos=tp, lat=la, lon=lo)
    return rec, extra


def run_total(item, pm):
    """(1) no exception, (2) invariant preserved, for every type code and every state shape"""
    prm = item.params
    tc, shape, vn, F = prm["tc"], prm["shape"], prm["ver"], prm["F"]
    item.encoded("pyModeS.streamer.decode.Decode.process_raw")
    rnd = random.Random(item.seed * 31 + tc)
    seeds = [(0, 0, 131071, 131071), tuple(rnd.getrandbits(17) for _ in range(4))]
    cpr = seeds[(tc + len(shape)) % 2]
    # CPR fields concrete (seeded; the position arithmetic itself is C03-C05/C14 and the pos* items): all other bits free
    fr = H.Frame([("DF", 5), ("CA", 3), ("ICAO", 24, ICAO_A), ("TC", 5, tc), ("ME1", 16), ("F", 1, F),
                  ("LAT", 17, cpr[0]), ("LON", 17, cpr[1]), ("PI", 24)], case="mixed")
    t, tnow, la0, lo0 = z3.Reals("t tnow lat0 lon0")
    item.declare(fr, t, tnow, la0, lo0)
    item.real_inputs = [t, tnow]
    item.assume(L.adsb_df(fr), t >= 0, t <= tnow, tnow <= 10 ** 7, la0 >= -90, la0 <= 90, lo0 >= -180, lo0 <= 180)
    rec, extra = sym_state(item, pm, shape, vn, t, other_F=1 - F, cpr=cpr[2:])
    if rec is not None:
        item.assume(extra["t"] <= t)
    for receiver in ((None, None), (SymReal(la0), SymReal(lo0))):
        def run(rec=rec, receiver=receiver):
            acs = {} if rec is None else {key_a(): dict(rec)}
            d = mk_decoder(pm, acs, *receiver)
            d.process_raw([SymReal(t)], [fr.msg], [], [], SymReal(tnow))
            return d.acs
        paths = item.explore(run, maxpaths=100000)
        for p in paths:
            if p.kind != "ret":
                claim = False
            else:
                acs = p.value
                if key_a() in acs:
                    claim = invariant_after(acs[key_a()], t)
                else:
                    claim = tnow - z3.ToReal(z3.ToInt(t)) > 60       # evicted straight away only if the message is old
                if set(acs) - {key_a()}:
                    claim = False

            if p.kind == "ret":
                validate_step(item, p, p.value, lambda m: conc_total(m, fr, t, tnow, rec, extra, receiver, la0, lo0), every=25)

            def replay(model, _p=p):
                arg = conc_total(model, fr, t, tnow, rec, extra, receiver, la0, lo0)
                r = H.real_driver("decode_step", arg)
                # no exception, and the aircraft is listed under its canonical (upper-case) address only
                bad = r[0] != "ret" or bool(set(r[1]["keys"]) - {key_a()})
                return bad, arg, "process_raw: %r" % (H.jsonable(r[:2]),), r
            item.prove("total", p.pc, claim, replay, path=p)
    item.sat_witness("reach", [])


def conc_total(model, fr, t, tnow, rec, extra, receiver, la0, lo0):
    def fv(x):
        return L.fval(model, x)
    arg = {"adsb": [[fv(t), fr.concrete(model)]], "commb": [], "tnow": fv(tnow), "state": {},
           "latlon": None if receiver[0] is None else [fv(la0), fv(lo0)]}
    if rec is not None:
        arg["state"][key_a()] = conc_record(model, rec)
    return arg


def conc_record(model, rec):
    out = {}
    for k, v in rec.items():
        out[str(k) if not isinstance(k, int) else "#%d" % k] = H.concretise(model, v)
    return out


def run_batch(item, pm):
    """two aircraft in ONE batch: A's message is decoded through the reference path, B is heard for the first time (its
    single frame cannot be decoded yet): nothing decoded for A may end up in B's record, and vice versa"""
    item.encoded("pyModeS.streamer.decode.Decode.process_raw")
    F = item.params["F"]
    fa = adsb_frame("a_", ICAO_A, tc=11, F=F, case="upper", cpr=(93000, 51372) if F == 0 else (74158, 50194))
    fb = adsb_frame("b_", ICAO_B, tc=12, F=1 - F, case="upper", cpr=(30000, 100000))
    t, t2, tnow = z3.Reals("t t2 tnow")
    item.declare(fa, fb, t, t2, tnow)
    item.real_inputs = [t, t2, tnow]
    recA, ex = sym_state(item, pm, "pos", "vN", t, other_F=1 - F, cpr=(4711, 815))
    # (CPR fields concrete: this item is about records not leaking into each other, not about the arithmetic)
    item.assume(L.adsb_df(fa), L.adsb_df(fb), t >= 0, t <= t2, t2 <= tnow, tnow - t <= 5, ex["t"] <= t, t - ex["tpos"] < 180)
    kb = "%06X" % ICAO_B
    for order in ("AB", "BA"):
        def run(order=order):
            d = mk_decoder(pm, {key_a(): dict(recA)})
            ms = [(SymReal(t), fa.msg), (SymReal(t2), fb.msg)]
            if order == "BA":
                ms = [(SymReal(t), fb.msg), (SymReal(t2), fa.msg)]
            d.process_raw([m[0] for m in ms], [m[1] for m in ms], [], [], SymReal(tnow))
            return d.acs
        paths = item.explore(run, maxpaths=100000)
        for p in paths:
            if p.kind != "ret":
                claim = False
            else:
                acs = p.value
                rb = acs.get(kb)
                ra = acs.get(key_a())
                claim = rb is not None and ra is not None and rb.get("lat") is None and rb.get("lon") is None and \
                    "tpos" not in rb and H.is_num_like(ra.get("lat"))

            def replay(model, order=order):
                fv = lambda x: L.fval(model, x)
                ms = [[fv(t), fa.concrete(model)], [fv(t2), fb.concrete(model)]]
                if order == "BA":
                    ms = [[fv(t), fb.concrete(model)], [fv(t2), fa.concrete(model)]]
                arg = {"adsb": ms, "commb": [], "tnow": fv(tnow), "latlon": None, "state": {key_a(): conc_record(model, recA)}}
                r = H.real_driver("decode_step", arg)
                bad = r[0] != "ret" or r[1]["lat"].get(kb) is not None or r[1]["tpos"].get(kb) is not None
                return bad, arg, "table after the batch: %r" % (H.jsonable(r[1:2]),), r
            item.prove("batch-" + order, p.pc, claim, replay, path=p)
    item.sat_witness("reach", [])


def run_evict(item, pm):
    """(3) after the call an aircraft is listed if it was heard within the last 59 s and absent once silent > 61 s"""
    item.encoded("pyModeS.streamer.decode.Decode.process_raw")
    commb = item.name.endswith("commb")
    t, tnow = z3.Reals("t tnow")
    item.declare(t, tnow)
    item.real_inputs = [t, tnow]
    item.assume(t >= 0, t <= tnow, tnow <= 10 ** 7)
    recB, exB = sym_state(item, pm, "fresh", "vN", tnow, prefix="b_", icao=ICAO_B)
    recA, exA = sym_state(item, pm, "fresh", "vN", t, prefix="a_")
    if commb:
        fr = commb_frame("m_", ICAO_A, "upper")
        item.declare(fr)
        # an all-zero MB field ('EMPTY'): the staleness rule does not depend on what the message carries
        item.assume(*fr.extra_cons, fr["MB"].var == 0)
    else:
        fr = H.Frame([("DF", 5), ("CA", 3), ("ICAO", 24, ICAO_A), ("TC", 5, 0), ("ME", 51), ("PI", 24)], case="upper")
        item.declare(fr)
        item.assume(L.adsb_df(fr))

    def run():
        acs = {key_a(): dict(recA), "%06X" % ICAO_B: dict(recB)}
        d = mk_decoder(pm, acs)
        if commb:
            d.process_raw([], [], [SymReal(t)], [fr.msg], SymReal(tnow))
        else:
            d.process_raw([SymReal(t)], [fr.msg], [], [], SymReal(tnow))
        return set(d.acs)
    kb = "%06X" % ICAO_B
    paths = item.explore(run, maxpaths=100000)
    for p in paths:
        if p.kind != "ret":
            claim = False
        else:
            present = p.value
            cA = (tnow - t <= 61) if key_a() in present else (tnow - t > 59)
            cB = (tnow - exB["t"] <= 61) if kb in present else (tnow - exB["t"] > 59)
            claim = z3.And(cA, cB)

        def replay(model):
            fv = lambda x: L.fval(model, x)
            arg = {"adsb": [] if commb else [[fv(t), fr.concrete(model)]], "commb": [[fv(t), fr.concrete(model)]] if commb else [],
                   "tnow": fv(tnow), "latlon": None,
                   "state": {key_a(): conc_record(model, recA), kb: conc_record(model, recB)}}
            r = H.real_driver("decode_step", arg)
            bad = r[0] != "ret"
            if not bad:
                keys = set(r[1]["keys"])
                for k, th in ((key_a(), fv(t)), (kb, fv(exB["t"]))):
                    age = fv(tnow) - th
                    if (k in keys and age > 61) or (k not in keys and age <= 59):
                        bad = True
            return bad, arg, "aircraft listed after the call: %r" % (H.jsonable(r[1:2]),), r
        item.prove("evict", p.pc, claim, replay, path=p)


def commb_frame(prefix, icao, case):
    """DF20/21 frame whose address/parity field encodes `icao` (PI = parity(data) XOR address)"""
    from spec import crc as SC
    df = H.Field(prefix + "DF", 5)
    hdr = H.Field(prefix + "HDR", 27)
    mb = H.Field(prefix + "MB", 56)
    par = SC.parity_of_data_bits(df.bits + hdr.bits + mb.bits)
    ab = [core.ONE1 if (icao >> (23 - i)) & 1 else core.ZERO1 for i in range(24)]
    fr = H.Frame.custom([df, hdr, mb, ("derived", [core.bxor(p, a) for p, a in zip(par, ab)], None)], prefix=prefix, case=case)
    fr.extra_cons = [z3.Or(df.var == 20, df.var == 21)]
    return fr


def run_commb(item, pm):
    """(4) Comm-B values are attached only to an aircraft already seen in ADS-B, for any hex case"""
    item.encoded("pyModeS.streamer.decode.Decode.process_raw", "pyModeS.py_common.icao")
    present = "present" in item.name
    fr = commb_frame("m_", ICAO_A, item.params["case"])
    t, tnow = z3.Reals("t tnow")
    item.declare(fr, t, tnow)
    item.real_inputs = [t, tnow]
    item.assume(*fr.extra_cons, t >= 0, t <= tnow, tnow - t <= 30)
    recA, exA = sym_state(item, pm, "fresh", "vN", t, prefix="a_")
    recB, exB = sym_state(item, pm, "fresh", "vN", t, prefix="b_", icao=ICAO_B)
    item.assume(t - exB["t"] <= 20, t - exA["t"] <= 20)
    kb = "%06X" % ICAO_B

    def run():
        acs = {kb: dict(recB)}
        if present:
            acs[key_a()] = dict(recA)
        d = mk_decoder(pm, acs)
        d.process_raw([], [], [SymReal(t)], [fr.msg], SymReal(tnow))
        return d.acs
    paths = item.explore(run, maxpaths=100000)
    for p in paths:
        if p.kind != "ret":
            claim = False
        else:
            acs = p.value
            # the silent aircraft is untouched (same objects), nothing new appears
            same_b = kb in acs and all(acs[kb].get(k) is recB.get(k) for k in set(recB) | set(acs[kb]))
            if present:
                claim = same_b and set(acs) == {kb, key_a()} and H.is_num_like(acs[key_a()]["t"]) and \
                    (H.to_real_term(acs[key_a()]["t"]) == t)
            else:
                claim = same_b and set(acs) == {kb}

        def replay(model):
            fv = lambda x: L.fval(model, x)
            st = {kb: conc_record(model, recB)}
            if present:
                st[key_a()] = conc_record(model, recA)
            arg = {"adsb": [], "commb": [[fv(t), fr.concrete(model)]], "tnow": fv(tnow), "latlon": None, "state": st}
            r = H.real_driver("decode_step", arg)
            bad = r[0] != "ret"
            if not bad:
                bad = set(r[1]["keys"]) != set(st) or (present and r[1]["t"].get(key_a()) != fv(t)) or \
                    r[1]["t"].get(kb) != fv(exB["t"])
            return bad, arg, "table after a Comm-B message: %r" % (H.jsonable(r[1:2]),), r
        item.prove("gate", p.pc, claim, replay, path=p)
    item.sat_witness("reach", [])


def motion_box(item, lat_a, lon_a, lat_b, lon_b, dt, dt_max_s, n, slack=Fraction(0), latcap=None):
    """|P(t) - P(t')| <= 600 kt * (t - t') as a rational box (contains the true reachable set); dt is the z3 term t - t'"""
    k = Fraction(600, 3600) / 60                                  # degrees of latitude per second at 600 kt
    dmax = k * dt_max_s + slack
    latmax = float(S.band(n)[1])
    if latcap is not None and latcap < latmax:
        latmax = latcap
        for x_ in (lat_a, lat_b):
            item.assume(x_ <= S.Q(Fraction(latcap)), x_ >= -S.Q(Fraction(latcap)))
    c = math.cos(math.radians(min(latmax + float(dmax) + 0.01, 89.9999)))
    kc = k / Fraction(c).limit_denominator(10 ** 6)
    d = S.Q(k) * dt + S.Q(slack)
    dl = S.Q(kc) * dt + S.Q(slack / Fraction(c).limit_denominator(10 ** 6) + Fraction(1, 10 ** 9))
    x = lon_b - lon_a
    item.assume(lat_b - lat_a <= d, lat_a - lat_b <= d)
    item.assume(z3.Or(z3.And(x <= dl, x >= -dl), x >= 360 - dl, x <= -360 + dl))


def lon_tol(enc):
    """0.001 deg, or one CPR longitude step where the format itself is coarser (|lat| > ~86.5 deg: one or two zones;
    the odd format has one zone fewer and either frame of a same-instant pair may be the one decoded)"""
    return max(Fraction(1, 1000), Fraction(enc.zone, max(enc.n - 1, 1) * S.P))


def pos_claim(r, rec, t, lat, lon, enc):
    """after the step: either the stored position is untouched (the message did not cause an update) or it was updated at
    this message and is within 0.001 deg of the true position (longitude modulo 360)"""
    if r is None:
        return False
    step = Fraction(1, 1000)
    unchanged = all(r.get(k) is rec.get(k) for k in ("lat", "lon")) and r.get("tpos") is rec.get("tpos")
    if unchanged:
        return True
    if not (H.is_num_like(r.get("lat")) and H.is_num_like(r.get("lon")) and H.is_num_like(r.get("tpos"))):
        return False
    return z3.And(H.to_real_term(r["tpos"]) == t, H.real_close(r["lat"], lat, step),
                  S.circ_close(H.to_real_term(r["lon"]), lon, lon_tol(enc)))


def pos_bad(out, rec, model, t, lat, lon, enc):
    la, lo, tp = out["lat"].get(key_a()), out["lon"].get(key_a()), out.get("tpos", {}).get(key_a())
    old = conc_record(model, rec)
    if la == old.get("lat") and lo == old.get("lon") and tp == old.get("tpos"):
        return False
    if la is None or lo is None:
        return True
    return tp != t or abs(la - lat) > 0.001 or float(S.circ_dist(Fraction(lo), Fraction(lon))) > float(lon_tol(enc))


def run_posref(item, pm):
    """(5a) reference path: stored position within 0.001 deg of the truth at tpos, next message < 180 s later, aircraft
    at <= 600 kt: the stored position after the update is within 0.001 deg of the truth (lon modulo 360)"""
    prm = item.params
    n, sg, kind, F = prm["n"], prm["sign"], prm["kind"], prm["F"]
    sign = 1 if sg == "N" else -1
    zone = 360 if kind == "air" else 90
    item.encoded("pyModeS.streamer.decode.Decode.process_raw", "pyModeS.decoder.adsb.position_with_ref")
    tc = 11 if kind == "air" else 7
    fr = adsb_frame("m_", ICAO_A, tc=tc, F=F, case="upper")
    t, tnow, lat, lon, plat, plon = z3.Reals("t tnow lat lon plat plon")
    item.declare(fr, t, tnow, lat, lon, plat, plon)
    item.real_inputs = [t, tnow]
    rec, ex = sym_state(item, pm, "pos", "vN", t, other_F=1 - F)
    enc = S.Enc(lat, lon, F, n, zone, "p")
    item.real_inputs += [ex["tpos"], ex["lat"], ex["lon"], ex["t"], ex["to"]]
    late = prm.get("late", False)
    if late:
        item.assume(t - ex["tpos"] >= 180, t - ex["tpos"] <= 2000, t - ex["to"] >= 10)
    else:
        item.assume(t - ex["tpos"] < 180)
    item.assume(L.adsb_df(fr), t >= 0, t <= tnow, tnow - t <= 5, ex["t"] <= t,
                lat >= -90, lat <= 90, lon >= -180, lon < 180, plat >= -90, plat <= 90, plon >= -180, plon < 180,
                *enc.cons, S.in_band(enc.rlat, n, sign), fr["LAT"].var == enc.YZ, fr["LON"].var == enc.XZ,
                # the stored position is within 0.001 deg of the true position at tpos (lon modulo 360)
                ex["lat"] - plat <= S.Q(Fraction(1, 1000)), plat - ex["lat"] <= S.Q(Fraction(1, 1000)),
                S.circ_close(ex["lon"], plon, Fraction(1, 1000)), ex["lon"] >= -181, ex["lon"] <= 181)
    if kind == "surf":
        item.assume(enc.rlat <= 89, enc.rlat >= -89)
    # surface frames poleward of 88.5 deg: 30 NM of motion spans more than half a 90-degree longitude zone, no decoder
    # can disambiguate there (stated under 'outside')
    motion_box(item, plat, plon, lat, lon, t - ex["tpos"], 2000 if late else 180, n,
               latcap=Fraction(177, 2) if kind == "surf" else None)

    def run():
        d = mk_decoder(pm, {key_a(): dict(rec)})
        d.process_raw([SymReal(t)], [fr.msg], [], [], SymReal(tnow))
        return d.acs.get(key_a())
    step = Fraction(1, 1000)
    paths = item.explore(run, maxpaths=100000)
    for p in paths:
        r = p.value if p.kind == "ret" else None
        claim = pos_claim(r, rec, t, lat, lon, enc)
        if r is not None:
            validate_step(item, p, {key_a(): r},
                          lambda m: {"adsb": [[L.fval(m, t), fr.concrete(m)]], "commb": [], "tnow": L.fval(m, tnow),
                                     "latlon": None, "state": {key_a(): conc_record(m, rec)}}, every=4)

        def replay(model):
            fv = lambda x: L.fval(model, x)
            arg = {"adsb": [[fv(t), fr.concrete(model)]], "commb": [], "tnow": fv(tnow), "latlon": None,
                   "state": {key_a(): conc_record(model, rec)}}
            rr = H.real_driver("decode_step", arg)
            bad = rr[0] != "ret"
            if not bad:
                bad = pos_bad(rr[1], rec, model, fv(t), fv(lat), fv(lon), enc)
            arg["true"] = [fv(lat), fv(lon)]
            return bad, arg, "stored position %r" % (H.jsonable(rr[1:2]),), rr
        item.prove("posref", p.pc, claim, replay, path=p)
    item.sat_witness("reach", [])


def run_posglob(item, pm):
    """(5b) pair path: no stored position, the other parity's frame is < 10 s old and encodes the true position then"""
    prm = item.params
    n, sg, F = prm["n"], prm["sign"], prm["F"]
    sign = 1 if sg == "N" else -1
    item.encoded("pyModeS.streamer.decode.Decode.process_raw", "pyModeS.decoder.adsb.position")
    fr = adsb_frame("m_", ICAO_A, tc=12, F=F, case="upper")
    t, tnow, lat, lon, olat, olon = z3.Reals("t tnow lat lon olat olon")
    item.declare(fr, t, tnow, lat, lon, olat, olon)
    item.real_inputs = [t, tnow]
    rec, ex = sym_state(item, pm, "pair", "vN", t, other_F=1 - F)
    item.real_inputs += [ex["t"], ex["to"]]
    st = ex["stored"]
    enc = S.Enc(lat, lon, F, n, 360, "p")
    eno = S.Enc(olat, olon, 1 - F, n, 360, "o")
    late = prm.get("late", False)
    if late:
        item.assume(t - ex["to"] >= 10, t - ex["to"] <= 120)
    else:
        item.assume(t - ex["to"] < 10)
    item.assume(L.adsb_df(fr), t >= 0, t <= tnow, tnow - t <= 5, ex["t"] <= t,
                st["TC"].int() >= 9,
                lat >= -90, lat <= 90, lon >= -180, lon < 180, olat >= -90, olat <= 90, olon >= -180, olon < 180,
                *enc.cons, *eno.cons, S.in_band(enc.rlat, n, sign), S.in_band(eno.rlat, n, sign),
                fr["LAT"].var == enc.YZ, fr["LON"].var == enc.XZ, st["LAT"].var == eno.YZ, st["LON"].var == eno.XZ)
    motion_box(item, olat, olon, lat, lon, t - ex["to"], 120 if late else 10, n)

    def run():
        d = mk_decoder(pm, {key_a(): dict(rec)})
        d.process_raw([SymReal(t)], [fr.msg], [], [], SymReal(tnow))
        return d.acs.get(key_a())
    step = Fraction(1, 1000)
    paths = item.explore(run, maxpaths=100000)
    for p in paths:
        r = p.value if p.kind == "ret" else None
        claim = pos_claim(r, rec, t, lat, lon, enc)
        if r is not None:
            validate_step(item, p, {key_a(): r},
                          lambda m: {"adsb": [[L.fval(m, t), fr.concrete(m)]], "commb": [], "tnow": L.fval(m, tnow),
                                     "latlon": None, "state": {key_a(): conc_record(m, rec)}}, every=4)

        def replay(model):
            fv = lambda x: L.fval(model, x)
            arg = {"adsb": [[fv(t), fr.concrete(model)]], "commb": [], "tnow": fv(tnow), "latlon": None,
                   "state": {key_a(): conc_record(model, rec)}}
            rr = H.real_driver("decode_step", arg)
            bad = rr[0] != "ret"
            if not bad:
                bad = pos_bad(rr[1], rec, model, fv(t), fv(lat), fv(lon), enc)
            arg["true"] = [fv(lat), fv(lon)]
            return bad, arg, "stored position %r" % (H.jsonable(rr[1:2]),), rr
        item.prove("posglob", p.pc, claim, replay, path=p)
    item.sat_witness("reach", [])
