"""C09 - ADS-B velocity: airborne (TC19) and surface movement (TC5-8) (DESIGN.md section 5 C09)."""
import math

import z3

from spec import velocity as S
from symx import core, harness as H, stubs
from symx.core import SymInt, SymReal
from symx.loader import load_repo

META = {
    "bounds": ["every field of the TC19 and TC5-8 ME symbolic (subtype, signs, 10-bit components/heading/airspeed, 9-bit "
               "vertical rate, 7-bit GNSS-baro difference, 7-bit movement, 7-bit track) with all other frame bits free; "
               "subtypes 1-4 (airborne); DF symbolic over 0..31, TC over 0..31"],
    "outside": ["numeric accuracy of math.sqrt/atan2/degrees (uninterpreted functions with range axioms: what is decided is "
                "which operands reach them, in which order, and the normalisation into [0,360))",
                "airborne subtypes 0, 5, 6, 7 (reserved)"],
    "stubs": ["math.sqrt -> SQRT (>= 0)", "math.atan2 -> ATAN2", "math.degrees -> DEG in (-180, 180]"],
    "assumptions": ["DO-260B: E/W sign 1 = west, N/S sign 1 = south, vertical-rate sign 1 = down, source bit 0 = GNSS"],
}


def items(tier, seed):
    out = []
    for st in (1, 2, 3, 4):
        for src in (False, True):
            out.append(("airborne-st%d-%s" % (st, "src" if src else "nosrc"), {"st": st, "source": src}))
    out += [("airborne-guard", {}), ("altitude_diff", {}), ("surface", {"source": False}), ("surface-src", {"source": True}),
            ("velocity-route", {}), ("speed_heading", {})]
    # history mode (harness.decide): the same call on an earlier frame of another subtype / movement code first
    out += [("airborne-st2-src@after:ST", {"st": 2, "source": True}),
            ("airborne-st3-nosrc@after:ST+V1", {"st": 3, "source": False}), ("surface@after:MOV", {"source": False}),
            ("altitude_diff@after:DALT", {})]
    if tier == "thorough":      # 4-5 min each
        out += [("airborne-st1-nosrc@after:ST", {"st": 1, "source": False}), ("speed_heading@after:TC", {})]
    return out


def tc19_frame():
    return H.Frame([("DF", 5), ("CA", 3), ("ICAO", 24), ("TC", 5), ("ST", 3), ("IC", 1), ("IFR", 1), ("NUC", 3),
                    ("S1", 1), ("V1", 10), ("S2", 1), ("V2", 10), ("VRSRC", 1), ("SVR", 1), ("VR", 9), ("RSV", 2),
                    ("SDIF", 1), ("DALT", 7), ("PI", 24)], case="mixed")


def surf_frame():
    return H.Frame([("DF", 5), ("CA", 3), ("ICAO", 24), ("TC", 5), ("MOV", 7), ("TS", 1), ("TRK", 7), ("T", 1), ("F", 1),
                    ("LAT", 17), ("LON", 17), ("PI", 24)], case="mixed")


def none_or(v, cond_none, claim_val):
    """v is None exactly when cond_none, else claim_val(v)"""
    if v is None:
        return cond_none
    return H.zand(z3.Not(cond_none), claim_val(v))


def cmp_shape(a, b):
    """path validation where libm is uninterpreted: compare everything except the values that went through libm"""
    if a is None or b is None:
        return a is None and b is None
    if len(a) != len(b):
        return False
    for i, (x, y) in enumerate(zip(a, b)):
        if (x is None) != (y is None):
            return False
        if i in (0, 1) and isinstance(y, (int, float)) and a[3] == "GS" and len(a) >= 4 and a[2:] == a[2:] and \
                (len(a) == 4 or a[4] == "TRUE_NORTH") and not isinstance(y, bool) and x != y:
            continue    # speed / track of subtypes 1-2 come out of SQRT / ATAN2
        if not H.same_value(x, y):
            return False
    return True


def tuple_close(got, want):
    if want is None or got is None:
        return want is None and got is None
    if not isinstance(got, tuple) or len(got) != len(want):
        return False
    for g, w in zip(got, want):
        if isinstance(w, float):
            if not isinstance(g, (int, float)) or isinstance(g, bool) or abs(g - w) > 1e-6:
                return False
        elif g != w or (type(g) is not type(w) and not (isinstance(g, (int, float)) and isinstance(w, (int, float)))):
            return False
    return True


def vr_claim(fr, v_vs, v_src=None):
    VR = fr["VR"].int()
    sgn = z3.If(fr["SVR"].int() == 1, -1, 1)
    c = none_or(v_vs, VR == 0, lambda x: H.int_eq(x, sgn * (VR - 1) * 64))
    if v_src is not None:
        c = H.zand(c, z3.If(fr["VRSRC"].int() == 0, v_src == "GNSS", v_src == "BARO") if isinstance(v_src, str) else False)
    return c


def run_item(item):
    item.cross_check = True      # thorough tier: discharged obligations are re-decided by cvc5
    pm = load_repo()
    name, prm = item.name, item.params
    conc = lambda m: {"msg": fr.concrete(m)}

    if name.startswith("airborne-st"):
        item.encoded("pyModeS.decoder.bds.bds09.airborne_velocity", "pyModeS.decoder.adsb.velocity")
        st, src = prm["st"], prm["source"]
        fr = tc19_frame()
        item.declare(fr)
        item.assume(z3.Or(fr["DF"].int() == 17, fr["DF"].int() == 18), fr["TC"].int() == 19, fr["ST"].int() == st)
        k = 4 if st in (2, 4) else 1
        V1, V2 = fr["V1"].int(), fr["V2"].int()

        def post(kind, v, ctx):
            if kind != "ret":
                return False
            if ctx.conc is not None:     # judging a real outcome: full concrete oracle
                return tuple_close(v, S.airborne_velocity(ctx.conc["msg"], src))
            if st in (1, 2):
                unavailable = z3.Or(V1 == 0, V2 == 0)
                if v is None:
                    return unavailable
                if not isinstance(v, tuple) or len(v) != (6 if src else 4):
                    return False
                we = z3.If(fr["S1"].int() == 1, -1, 1) * ((V1 - 1) * k)
                sn = z3.If(fr["S2"].int() == 1, -1, 1) * ((V2 - 1) * k)
                root = stubs.SQRT(z3.ToReal(sn * sn + we * we))
                spd_ok = H.int_eq(v[0], z3.ToInt(root)) if H.is_int_like(v[0]) else False
                ang = stubs.DEG(stubs.ATAN2(z3.ToReal(we), z3.ToReal(sn)))
                trk_ok = H.zand(H.real_close(v[1], z3.If(ang >= 0, ang, ang + 360), 0),
                                H.to_real_term(v[1]) >= 0, H.to_real_term(v[1]) < 360) if H.is_num_like(v[1]) else False
                c = H.zand(z3.Not(unavailable), spd_ok, trk_ok, vr_claim(fr, v[2], v[5] if src else None),
                           v[3] == "GS", (v[4] == "TRUE_NORTH") if src else True)
                return c
            if not isinstance(v, tuple) or len(v) != (6 if src else 4):
                return False      # subtypes 3/4: each quantity is None exactly when it is marked unavailable
            hdg_ok = none_or(v[1], fr["S1"].int() == 0, lambda x: H.real_close(x, z3.ToReal(V1) * 360 / 1024, 1e-9))
            spd_ok = none_or(v[0], V2 == 0, lambda x: H.int_eq(x, (V2 - 1) * k))
            typ_ok = z3.If(fr["S2"].int() == 0, v[3] == "IAS", v[3] == "TAS") if isinstance(v[3], str) else False
            return H.zand(hdg_ok, spd_ok, typ_ok, vr_claim(fr, v[2], v[5] if src else None),
                          (v[4] == "MAGNETIC_NORTH") if src else True)
        for path, f in (("pyModeS.adsb.airborne_velocity", pm.adsb.airborne_velocity), ("pyModeS.adsb.velocity", pm.adsb.velocity)):
            H.decide(item, path.split("pyModeS.")[1], lambda: f(fr.msg, source=src),
                     lambda c: H.real_call(path, c["msg"], source=src), conc, post, cmp=cmp_shape)
        item.sat_witness("available", [V1 != 0, V2 != 0])

    elif name == "airborne-guard":
        item.encoded("pyModeS.decoder.bds.bds09.airborne_velocity", "pyModeS.decoder.bds.bds09.altitude_diff")
        fr = tc19_frame()
        item.declare(fr)
        dom = z3.And(z3.Or(fr["DF"].int() == 17, fr["DF"].int() == 18), fr["TC"].int() == 19)
        item.assume(z3.Not(dom))
        for path, f in (("pyModeS.adsb.airborne_velocity", pm.adsb.airborne_velocity),
                        ("pyModeS.adsb.altitude_diff", pm.adsb.altitude_diff)):
            H.decide(item, path.split("pyModeS.")[1], lambda: f(fr.msg), lambda c: H.real_call(path, c["msg"]), conc,
                     lambda k, v: k == "exc" and v == "RuntimeError")

    elif name == "altitude_diff":
        item.encoded("pyModeS.decoder.bds.bds09.altitude_diff")
        fr = tc19_frame()
        item.declare(fr)
        item.assume(z3.Or(fr["DF"].int() == 17, fr["DF"].int() == 18), fr["TC"].int() == 19)
        D = fr["DALT"].int()
        sgn = z3.If(fr["SDIF"].int() == 1, -1, 1)

        def post(kind, v, ctx):
            if kind != "ret":
                return False
            if ctx.conc is not None:
                return v in S.altitude_diff(ctx.conc["msg"]) and (v is None or isinstance(v, (int, float)))
            if v is None:
                return z3.Or(D == 0, D == 127)
            return H.zand(D != 0, H.real_close(v, z3.ToReal(sgn * (D - 1) * 25), 0))
        H.decide(item, "adsb.altitude_diff", lambda: pm.adsb.altitude_diff(fr.msg),
                 lambda c: H.real_call("pyModeS.adsb.altitude_diff", c["msg"]), conc, post)

    elif name in ("surface", "surface-src", "velocity-route", "speed_heading"):
        item.encoded("pyModeS.decoder.bds.bds06.surface_velocity", "pyModeS.decoder.adsb.velocity",
                     "pyModeS.decoder.adsb.speed_heading")
        fr = surf_frame()
        item.declare(fr)
        df, tc = fr["DF"].int(), fr["TC"].int()
        adsb_ = z3.Or(df == 17, df == 18)
        surf = z3.And(adsb_, tc >= 5, tc <= 8)
        MOV, TRK = fr["MOV"].int(), fr["TRK"].int()
        spd_spec = z3.RealVal(0)
        for lo, hi, base, step in S.MOVEMENT:
            spd_spec = z3.If(z3.And(MOV >= lo, MOV <= hi),
                             core.rval(base) + z3.ToReal(MOV - lo) * core.rval(step), spd_spec)
        spd_spec = z3.If(MOV == 1, z3.RealVal(0), z3.If(MOV == 124, z3.RealVal(175), spd_spec))
        spd_none = z3.Or(MOV == 0, MOV > 124)
        src = prm.get("source", False)

        def surf_claim(v, n):
            if not isinstance(v, tuple) or len(v) != n:
                return False
            c = H.zand(none_or(v[0], spd_none, lambda x: H.real_close(x, spd_spec, 0)),
                       none_or(v[1], fr["TS"].int() == 0, lambda x: H.real_close(x, z3.ToReal(TRK) * 360 / 128, 1e-9)))
            if n >= 4:
                c = H.zand(c, H.int_eq(v[2], 0), v[3] == "GS")
            if n == 6:
                c = H.zand(c, v[4] == "TRUE_NORTH", v[5] is None)
            return c

        if name in ("surface", "surface-src"):
            def post(kind, v, ctx):
                if kind == "exc":
                    return H.zand(v == "RuntimeError", z3.Not(surf))
                if ctx.conc is not None:
                    return tuple_close(v, S.surface_velocity(ctx.conc["msg"], src))
                return H.zand(surf, surf_claim(v, 6 if src else 4))
            H.decide(item, "adsb.surface_velocity", lambda: pm.adsb.surface_velocity(fr.msg, src),
                     lambda c: H.real_call("pyModeS.adsb.surface_velocity", c["msg"], src), conc, post)
            item.sat_witness("surf", [surf, z3.Not(spd_none)])
        elif name == "velocity-route":
            # dispatcher: TC5-8 -> surface decoder, TC19 -> airborne decoder (covered above), else RuntimeError
            item.assume(z3.Not(z3.And(adsb_, tc == 19)))

            def post(kind, v, ctx):
                if kind == "exc":
                    return H.zand(v == "RuntimeError", z3.Not(surf))
                if ctx.conc is not None:
                    return tuple_close(v, S.surface_velocity(ctx.conc["msg"], False))
                return H.zand(surf, surf_claim(v, 4))
            H.decide(item, "adsb.velocity", lambda: pm.adsb.velocity(fr.msg),
                     lambda c: H.real_call("pyModeS.adsb.velocity", c["msg"]), conc, post)
        else:
            item.assume(z3.Not(z3.And(adsb_, tc == 19)))

            def post(kind, v, ctx):
                if kind == "exc":
                    return H.zand(v == "RuntimeError", z3.Not(surf))
                if ctx.conc is not None:
                    return tuple_close(v, S.surface_velocity(ctx.conc["msg"], False)[:2])
                return H.zand(surf, surf_claim(v, 2))
            H.decide(item, "adsb.speed_heading", lambda: pm.adsb.speed_heading(fr.msg),
                     lambda c: H.real_call("pyModeS.adsb.speed_heading", c["msg"]), conc, post)
    else:
        raise H.HarnessError("unknown item " + name)
