"""./check <id> --tier quick|thorough [--replay file] [--jobs N] [--only pattern]

exit 0: property held on everything explored (KNOWN-FINDING lines allowed)
exit 1: VIOLATION property=<id> replay=<path>   (counterexample reproduced on the unpatched code)
exit 2: inconclusive / harness error (never reported as success, never as a violation)
"""
import argparse
import fnmatch
import hashlib
import importlib
import json
import multiprocessing as mp
import os
import sys
import time
import traceback

VERIF = os.path.dirname(os.path.dirname(os.path.abspath(__file__)))
sys.path.insert(0, VERIF)


def load_findings():
    p = os.path.join(VERIF, "known_findings.json")
    if not os.path.exists(p):
        return []
    return json.load(open(p))["findings"]


_W = {}


def _init_worker(pid, tier, seed):
    _W["pid"], _W["tier"], _W["seed"] = pid, tier, seed
    _W["mod"] = importlib.import_module("props.%s" % pid.lower())
    _W["findings"] = load_findings()
    sys.setrecursionlimit(10000)
    import warnings
    warnings.simplefilter("ignore")


def _run_item(job):
    from symx import core, harness
    name, params = job
    t0 = time.time()
    item = harness.Item(_W["pid"], name, params, _W["tier"], _W["seed"], _W["findings"])
    st0 = (core.STATS.decisions, core.STATS.solver_calls)
    try:
        _W["mod"].run_item(item)
        res = item.result()
        res["status"] = "ok"
    except harness.HarnessError as e:
        res = item.result()
        res["status"] = "error"
        res["error"] = "HarnessError: %s" % e
    except core.Unsupported as e:
        res = item.result()
        res["status"] = "error"
        res["error"] = "Unsupported: %s\n%s" % (e, "".join(traceback.format_tb(e.__traceback__)[-4:]))
    except BaseException as e:  # noqa
        res = item.result()
        res["status"] = "error"
        res["error"] = "%s: %s\n%s" % (type(e).__name__, e, traceback.format_exc()[-1500:])
    res["decisions"] = core.STATS.decisions - st0[0]
    res["feasibility_queries"] = core.STATS.solver_calls - st0[1]
    res["wall_s"] = round(time.time() - t0, 3)
    return res


def src_digest():
    from symx.loader import source_files
    h = hashlib.sha256()
    for f in source_files():
        h.update(f.encode())
        h.update(open(f, "rb").read())
    return h.hexdigest()[:16]


def main(argv=None):
    ap = argparse.ArgumentParser()
    ap.add_argument("pid")
    ap.add_argument("--tier", default=os.environ.get("VERIF_TIER", "quick"), choices=["quick", "thorough"])
    ap.add_argument("--replay")
    ap.add_argument("--jobs", type=int, default=int(os.environ.get("SYMX_JOBS", "0")) or min(16, os.cpu_count() or 1))
    ap.add_argument("--only", default=None, help="fnmatch pattern on work item names (debugging)")
    ap.add_argument("--no-evidence", action="store_true")
    a = ap.parse_args(argv)
    pid = a.pid.upper()
    seed = int(os.environ.get("VERIF_SEED", "0") or 0)
    t0 = time.time()
    try:
        mod = importlib.import_module("props.%s" % pid.lower())
    except ImportError as e:
        print("no harness for %s: %s" % (pid, e))
        return 2

    replay_rec = None
    if a.replay:
        replay_rec = json.load(open(a.replay))
    jobs = mod.items(a.tier, seed)
    if replay_rec is not None:
        # generic replay: re-run the work item with every input pinned to the recorded counterexample
        prm = dict(replay_rec.get("params") or {})
        prm["__pins__"] = replay_rec["raw"]
        jobs = [(replay_rec["item"], prm)]
        a.no_evidence = True
    if a.only:
        jobs = [j for j in jobs if fnmatch.fnmatch(j[0], a.only)]
    jobs = list(jobs)
    # longest first (harness-provided weights) so that the last worker does not start the heaviest item
    jobs.sort(key=lambda j: -float((j[1] or {}).get("weight", 0)))
    ctx = mp.get_context("fork")
    results = []
    n = max(1, min(a.jobs, len(jobs)))
    if n == 1:
        _init_worker(pid, a.tier, seed)
        for j in jobs:
            results.append(_run_item(j))
    else:
        # longest items first when the harness provides weights
        with ctx.Pool(n, initializer=_init_worker, initargs=(pid, a.tier, seed), maxtasksperchild=None) as pool:
            for r in pool.imap_unordered(_run_item, jobs, chunksize=1):
                results.append(r)
                if os.environ.get("SYMX_VERBOSE"):
                    print("  [%s] %s obl=%d/%d paths=%d %.1fs %s" % (
                        r["status"], r["item"], r["discharged"], r["obligations"], r["paths"], r["wall_s"],
                        r.get("error", "")[:300]), flush=True)
    results.sort(key=lambda r: r["item"])
    wall = time.time() - t0

    errors = [r for r in results if r["status"] != "ok"]
    violations = [v for r in results for v in r["violations"]]
    known = {}
    for r in results:
        for k, v in r["known_hits"].items():
            known.setdefault(k, v)

    # replay files
    os.makedirs(os.path.join(VERIF, "replays"), exist_ok=True)
    vio_lines = []
    for v in violations:
        h = hashlib.sha256(json.dumps(v, sort_keys=True).encode()).hexdigest()[:12]
        path = os.path.join(VERIF, "replays", "%s-%s.json" % (pid, h))
        rec = dict(v)
        rec["property"] = pid
        rec["params"] = {k: x for k, x in (next((p for (nm, p) in jobs if nm == v["item"]), None) or {}).items()
                         if k != "__pins__"}
        json.dump(rec, open(path, "w"), indent=1)
        vio_lines.append("VIOLATION property=%s replay=%s" % (pid, path))

    meta = getattr(mod, "META", {})
    samples = [s for r in results for s in r["samples"]][:12]
    if not samples:
        samples = [{"item": r["item"], "obligations": r["obligations"]} for r in results[:3]]
    obligations = sum(r["obligations"] for r in results)
    discharged = sum(r["discharged"] for r in results)
    paths = sum(r["paths"] for r in results)
    ev = {
        "property_id": pid,
        "tier": a.tier,
        "seed": seed,
        "level": "model_checking",
        "coverage": {
            "states": max(paths, 0),
            "transitions": sum(r["decisions"] for r in results),
            "traces_validated_against_impl": sum(r["validated"] for r in results),
            "samples": samples,
            "obligations": obligations,
            "discharged": discharged,
            "evaluations": paths + sum(r["validated"] for r in results),
            "distinct_nontrivial": sum(r["nontrivial"] for r in results),
            "rule": "evaluations = executions of the real code by this run (symbolic executions, one per feasible path, plus "
                    "concrete replays of solver-chosen inputs on the unpatched code); "
                    "states = feasible paths of the real functions found by symbolic execution; transitions = branch "
                    "decisions taken; obligations = SMT queries 'path condition AND assumptions AND NOT property' "
                    "(discharged = unsat); distinct_nontrivial = paths with a non-empty path condition; "
                    "traces_validated = paths whose solver-chosen input was run through the unpatched code with "
                    "the predicted outcome",
            "exhaustive": False,
            "work_items": len(results),
            "items_failed": len(errors),
            "functions_encoded": sorted({f for r in results for f in r["functions"]}),
            "bounds": meta.get("bounds", []),
            "outside": meta.get("outside", []),
            "stubs": meta.get("stubs", []),
            "solver": "z3 %s" % _z3ver(),
            "solver_s": round(sum(r["solver_s"] for r in results), 2),
            "smt_queries": sum(r["queries"] for r in results),
            "feasibility_queries": sum(r.get("feasibility_queries", 0) for r in results),
            "cvc5_cross_checked": sum(r.get("cvc5_checked", 0) for r in results),
            "repo_source_sha256_16": src_digest(),
            "known_findings_hit": sorted(known),
            "notes": sorted({n for r in results for n in r["notes"]})[:20],
            "per_item": [{k: r[k] for k in ("item", "obligations", "discharged", "paths", "validated", "wall_s")}
                         for r in results][:400],
        },
        "assumptions": meta.get("assumptions", []),
        "wall_s": round(wall, 2),
        "violations": len(violations),
    }
    if errors:
        ev["coverage"]["errors"] = [{"item": r["item"], "error": r["error"][:600]} for r in errors][:20]
    if not a.no_evidence and not a.only:
        os.makedirs(os.path.join(VERIF, "evidence"), exist_ok=True)
        json.dump(ev, open(os.path.join(VERIF, "evidence", "%s.json" % pid), "w"), indent=1)

    for k, v in sorted(known.items()):
        print("KNOWN-FINDING: property=%s %s: %s [e.g. %s]" % (pid, k, v["what"], json.dumps(v["example"])[:200]))
    print("%s %s: items=%d paths=%d obligations=%d discharged=%d validated=%d solver=%.1fs wall=%.1fs" % (
        pid, a.tier, len(results), paths, obligations, discharged, ev["coverage"]["traces_validated_against_impl"],
        ev["coverage"]["solver_s"], wall))
    if replay_rec is not None and not violations:
        print("replay %s: not reproduced (%s)" % (a.replay, "; ".join(r.get("error", "ok")[:200] for r in results)))
        return 0 if not errors else 2
    if violations:
        for v, line in zip(violations, vio_lines):
            print("  counterexample %s/%s: %s -- %s" % (v["item"], v["label"], json.dumps(v["inputs"])[:300],
                                                        v["detail"][:200]))
        # one line per violation; the first is the canonical one
        for line in vio_lines[:5]:
            print(line)
        return 1
    if errors:
        for r in errors[:10]:
            print("INCONCLUSIVE %s: %s" % (r["item"], r["error"][:1200]), file=sys.stderr)
        print("%s: inconclusive (%d work items failed) - not a verdict" % (pid, len(errors)))
        return 2
    if obligations == 0 or discharged != obligations:
        print("%s: inconclusive (no obligations or not all discharged)" % pid)
        return 2
    return 0


def _z3ver():
    import z3
    return z3.get_version_string()


if __name__ == "__main__":
    sys.exit(main())
