"""Source-level model of c_common.pyx (no Cython exists in this sandbox: the .pyx can only be modelled from source).

A small de-cythoniser turns the .pyx into Python (cdef/cpdef headers -> def, typed declarations -> assignments, stores
into typed locals / typed memoryviews / typed returns go through __c_cast__(ctype, value) with LP64 widths, memoryviews
are aliases of their bytearray, PyBytes_GET_SIZE -> len, <long> c_floor(x) -> floor + conversion).  The result is
compiled with the same symx AST rewrites as the rest of the library and executed with the same proxy values; bytes are
lists of characters (CBytes).  char_to_int / int_to_char are first proven equal to their closed forms on every byte value
(lemmas, on the translated source) and then used in closed form.
"""
import ast
import builtins
import os
import re

import z3

from . import core, rewrite
from .core import BitChar, HexChar, SymBool, SymInt, SymReal, SymStr, Unsupported, is_sym, mkstr, ONE1, ZERO1

CTYPES = {"unsigned char": (8, False), "char": (8, True), "int": (32, True), "long": (64, True),
          "Py_ssize_t": (64, True), "bint": (1, False)}
SCALARS = "unsigned char|Py_ssize_t|bytearray|double|float|long|char|int|bint|str|bytes|array\\.array"


class COverflow(Exception):
    """a C integer conversion that does not preserve the value (reported, never silently wrapped)"""


# --------------------------------------------------------------------------- text pass

def text_pass(src):
    out, decls, cur = [], {}, None
    for line in src.splitlines():
        s = line.strip()
        if s.startswith("cimport ") or (s.startswith("from ") and " cimport " in s) or s.startswith("@cython.") \
                or s.startswith("# cython:"):
            continue
        m = re.match(r"^(cdef|cpdef)\s+(?:(unsigned char|Py_ssize_t|bytearray|double|long|char|int|bint|str)\s+)?(\w+)\((.*)\):\s*$", line)
        if m:
            kind, rt, name, args = m.groups()
            cur = name
            decls[cur] = {"__ret__": rt}
            newargs, casts = [], []
            for a in [x.strip() for x in args.split(",") if x.strip()]:
                default = None
                if "=" in a:
                    a, default = [x.strip() for x in a.split("=")]
                mm = re.match(r"^(unsigned char|Py_ssize_t|double|long|char|int|bint|str)\s+(\w+)$", a)
                if mm:
                    t, n = mm.groups()
                    decls[cur][n] = t
                    casts.append((n, t))
                else:
                    n = a
                newargs.append(n if default is None else "%s=%s" % (n, default))
            out.append("def %s(%s):" % (name, ", ".join(newargs)))
            for n, t in casts:
                if t != "str":
                    out.append("    %s = __c_cast__(%r, %s)" % (n, t, n))
            continue
        m = re.match(r"^def\s+(\w+)\(", line)
        if m:
            cur = m.group(1)
            decls.setdefault(cur, {"__ret__": None})
        m = re.match(r"^(\s*)cdef\s+(unsigned char|long)\[:\]\s+(\w+)\s*=\s*(.+)$", line)
        if m:
            ind, t, n, e = m.groups()
            decls[cur]["mv:" + n] = t
            out.append("%s%s = %s" % (ind, n, e))
            continue
        m = re.match(r"^(\s*)cdef\s+long\[4\]\s+(\w+)\s*=\s*(.+)$", line)
        if m:
            ind, n, e = m.groups()
            out.append("%s%s = list(%s)" % (ind, n, e))
            continue
        m = re.match(r"^(\s*)cdef\s+(%s)\s+(\w+(?:\s*,\s*\w+)*)\s*(?:=\s*(.+))?$" % SCALARS, line)
        if m:
            ind, t, names, e = m.groups()
            names = [x.strip() for x in names.split(",")]
            scope = cur if ind else "__module__"
            for n in names:
                decls.setdefault(scope, {})[n] = t
            out.append("%s%s = %s" % (ind, names[0], e) if e is not None else "%spass" % ind)
            continue
        m = re.match(r"^(\s*)cdef\s+(\w+)\s*=\s*(.+)$", line)
        if m:
            ind, n, e = m.groups()
            out.append("%s%s = %s" % (ind, n, e))
            continue
        if re.match(r"^\s*c(p)?def\b", line):
            raise Unsupported("c_common.pyx: declaration form not handled by the de-cythoniser: %s" % s)
        line = re.sub(r"<long>\s*(c_floor\([^)]*\))", r"__c_cast__('long', \1)", line)
        if "<" in line and re.search(r"<\s*(unsigned char|long|int|double|char)\s*>", line):
            raise Unsupported("c_common.pyx: cast form not handled by the de-cythoniser: %s" % s)
        out.append(line)
    return "\n".join(out), decls


class Caster(ast.NodeTransformer):
    def __init__(self, decls):
        self.decls, self.cur = decls, None

    def visit_FunctionDef(self, node):
        prev, self.cur = self.cur, node.name
        self.generic_visit(node)
        self.cur = prev
        return node

    def _t(self, name):
        return self.decls.get(self.cur, {}).get(name)

    @staticmethod
    def _wrap(t, val):
        return ast.Call(ast.Name("__c_cast__", ast.Load()), [ast.Constant(t), val], [])

    def visit_Assign(self, node):
        self.generic_visit(node)
        if len(node.targets) == 1:
            tg = node.targets[0]
            if isinstance(tg, ast.Name):
                t = self._t(tg.id)
                if t and t not in ("str", "bytearray", "array.array", "bytes"):
                    node.value = self._wrap(t, node.value)
            elif isinstance(tg, ast.Subscript) and isinstance(tg.value, ast.Name):
                t = self.decls.get(self.cur, {}).get("mv:" + tg.value.id)
                if t:
                    node.value = self._wrap(t, node.value)
        return node

    def visit_AugAssign(self, node):
        self.generic_visit(node)
        if isinstance(node.target, ast.Name):
            t = self._t(node.target.id)
            if t:
                load = ast.Name(node.target.id, ast.Load())
                return ast.Assign([ast.Name(node.target.id, ast.Store())], self._wrap(t, ast.BinOp(load, node.op, node.value)))
        return node

    def visit_Return(self, node):
        self.generic_visit(node)
        rt = self.decls.get(self.cur, {}).get("__ret__")
        if rt and rt != "str" and node.value is not None:
            node.value = self._wrap(rt, node.value)
        return node


# --------------------------------------------------------------------------- runtime values

class CByte:
    """one byte that is the code of a (possibly symbolic) character"""
    __slots__ = ("ch",)

    def __init__(self, ch):
        self.ch = ch

    def code(self):
        c = self.ch
        if isinstance(c, str):
            return ord(c)
        if isinstance(c, BitChar):
            return SymInt(bits=[ONE1, ONE1, ZERO1, ZERO1, ZERO1, c.b])       # 48 + bit
        if isinstance(c, HexChar):
            v = SymInt(bits=c.nib).toint()
            return SymInt(it=z3.If(v < 10, v + 48, z3.If(c.upper, v + 55, v + 87)), lo=48, hi=102)
        raise Unsupported("code of %s" % type(c).__name__)

    def _cmp(self, o, f):
        return f(self.code(), o.code() if isinstance(o, CByte) else o)

    def __eq__(self, o):
        if isinstance(o, int) and isinstance(self.ch, BitChar) and o in (48, 49):
            return SymBool(self.ch.is_char(chr(o)))
        return self._cmp(o, lambda a, b: a == b)

    def __ne__(self, o):
        r = self.__eq__(o)
        return (not r) if isinstance(r, bool) else ~r

    def __le__(self, o):
        return self._cmp(o, lambda a, b: a <= b)

    def __ge__(self, o):
        return self._cmp(o, lambda a, b: a >= b)

    def __lt__(self, o):
        return self._cmp(o, lambda a, b: a < b)

    def __gt__(self, o):
        return self._cmp(o, lambda a, b: a > b)

    def __sub__(self, o):
        return self.code() - o

    __hash__ = None


def as_elem(x):
    """element stored in a CBytes: int, or a character object"""
    if isinstance(x, CByte):
        return x.ch
    if isinstance(x, SymInt):
        if x.isconst():
            return x.constval()
        return x
    if isinstance(x, int):
        return x
    raise Unsupported("byte element %s" % type(x).__name__)


class CBytes:
    """bytes / bytearray / typed memoryview over it: a list whose elements are ints or character objects"""

    def __init__(self, elems):
        self.e = list(elems)

    def __len__(self):
        return len(self.e)

    def __getitem__(self, i):
        if isinstance(i, slice):
            return CBytes(self.e[i])
        if isinstance(i, SymInt):
            i = core.concretize(i)
        v = self.e[i]
        if isinstance(v, (int, SymInt)):
            return v
        return CByte(v)

    def __setitem__(self, i, v):
        if isinstance(i, slice):
            raise Unsupported("slice assignment into a byte buffer")
        self.e[i] = as_elem(v)

    def __add__(self, o):
        if isinstance(o, CBytes):
            return CBytes(self.e + o.e)
        return NotImplemented

    def __iter__(self):
        return (self[k] for k in range(len(self.e)))

    def decode(self, *a):
        out = []
        for v in self.e:
            if isinstance(v, int):
                out.append(chr(v))
            elif isinstance(v, SymInt):
                raise Unsupported("decode of a symbolic raw byte")
            else:
                out.append(v)
        return mkstr(out)

    def __eq__(self, o):
        raise Unsupported("comparison of byte buffers")

    __hash__ = None


def c_bytes(x=b""):
    if isinstance(x, CBytes):
        return CBytes(x.e)
    if isinstance(x, int):
        return CBytes([0] * x)
    if isinstance(x, (bytes, bytearray)):
        return CBytes(list(x))
    if isinstance(x, (list, tuple)):
        return CBytes([as_elem(v) for v in x])
    raise Unsupported("bytes(%s)" % type(x).__name__)


def str_encode(s, *a):
    return CBytes(list(s.chars) if isinstance(s, SymStr) else [c for c in s])


def c_cast(t, v):
    if t in ("str", "bytearray", "bytes", "object", "array.array") or t is None:
        return v
    if t == "double":
        if is_sym(v) or type(v).__name__ == "SymFP":
            return v
        return float(v)
    if t == "float":        # IEEE single: round to binary32 and widen again
        if type(v).__name__ == "SymFP":
            from . import fp as _fp
            return _fp.SymFP(z3.fpToFP(z3.RNE(), z3.fpToFP(z3.RNE(), v.t, z3.Float32()), z3.Float64()), v.np, v.opaque)
        if is_sym(v):
            raise Unsupported("C float of %s" % type(v).__name__)
        import struct
        return struct.unpack("f", struct.pack("f", float(v)))[0]
    if t == "bint":
        return v if isinstance(v, (SymBool, bool)) else (v != 0)
    bits, signed = CTYPES[t]
    lo, hi = (-(1 << (bits - 1)), (1 << (bits - 1)) - 1) if signed else (0, (1 << bits) - 1)
    if isinstance(v, (SymStr, str)) and len(v) == 1:
        v = CByte(v.chars[0] if isinstance(v, SymStr) else v)
    if isinstance(v, CByte):
        if t in ("char", "unsigned char"):
            return v if not isinstance(v.ch, str) else ord(v.ch)
        return v.code()
    if isinstance(v, SymBool):
        return SymInt.lift(v)
    if type(v).__name__ == "SymFP":
        from . import fp as _fp
        c = core.Ctx.cur
        inside = z3.And(z3.fpLT(v.t, _fp.fpval(float(hi) + 1.0)), z3.fpGT(v.t, _fp.fpval(float(lo) - 1.0)))
        if getattr(v, "opaque", False) and c is not None:
            # the value went through uninterpreted libm functions: it is ASSUMED to fit (casting an out-of-range or NaN
            # double is undefined behaviour in C; stated as an assumption of the check)
            c.assume(inside)
        elif c is None or not c.must(inside):
            raise COverflow("double may not fit C type %s" % t)
        r = v.to_int()
        return SymInt(it=r.toint(), lo=lo, hi=hi)
    if isinstance(v, SymReal):
        return c_cast(t, core.real_trunc(v))
    if isinstance(v, SymInt):
        if v.lo >= lo and v.hi <= hi:
            return v
        c = core.Ctx.cur
        rng = z3.And(v.toint() >= lo, v.toint() <= hi)
        from . import fp as _fp
        if c is not None and _fp.mentions_uf([v.toint()]):
            c.assume(rng)          # derived from an uninterpreted libm result: assumed to fit (see c_cast of doubles)
            return SymInt(it=v.toint(), lo=lo, hi=hi)
        if c is None:
            raise COverflow("value may not fit C type %s" % t)
        if bool(SymBool(z3.Not(rng))):
            raise COverflow("value does not fit C type %s" % t)     # this path: an actually overflowing value
        return SymInt(it=v.toint(), lo=max(lo, v.lo), hi=min(hi, v.hi))
    if isinstance(v, float):
        v = int(v)
    if isinstance(v, bool):
        v = int(v)
    if isinstance(v, int):
        if not (lo <= v <= hi):
            raise COverflow("%d does not fit C type %s" % (v, t))
        return v
    if hasattr(v, "item"):
        return c_cast(t, v.item())
    raise Unsupported("__c_cast__(%s, %s)" % (t, type(v).__name__))


# closed forms of the two character helpers (used after the lemmas about the translated source have been proven)

def char_to_int_closed(b):
    if isinstance(b, CByte):
        c = b.ch
        if isinstance(c, BitChar):
            return SymInt(bits=[c.b])
        if isinstance(c, HexChar):
            return SymInt(bits=c.nib)
        b = ord(c)
    if isinstance(b, SymInt):
        raise Unsupported("char_to_int of a raw symbolic byte")
    if 48 <= b <= 57:
        return b - 48
    if 97 <= b <= 102:
        return b - 87
    if 65 <= b <= 70:
        return b - 55
    return 0


def int_to_char_closed(i):
    if isinstance(i, SymInt):
        if i.isconst():
            i = i.constval()
        else:
            bits = i.getbits()
            if len(bits) == 1:
                return CByte(BitChar(bits[0]))
            if len(bits) <= 4:
                bits = [ZERO1] * (4 - len(bits)) + bits
                return CByte(HexChar(bits, False))       # '0'-'9', 'a'-'f'
            raise Unsupported("int_to_char of a wide symbolic value")
    if isinstance(i, int):
        return 48 + i if i < 10 else 87 + i
    raise Unsupported("int_to_char(%s)" % type(i).__name__)


class _Array:
    @staticmethod
    def array(code, init):
        return list(init)


def build(src_dir=None):
    """translate c_common.pyx and execute it into a fresh namespace (with the symx rewrites and builtin models)"""
    from . import loader, stubs, fp
    src_dir = src_dir or loader.REPO_SRC
    path = os.path.join(src_dir, "pyModeS", "c_common.pyx")
    txt, decls = text_pass(open(path).read())
    tree = ast.parse(txt)
    tree = rewrite.IfConv({"crc"}).visit(tree)        # before the casts are inserted (they are calls)
    tree = Caster(decls).visit(tree)
    tree = rewrite.transform(tree, ())
    ast.fix_missing_locations(tree)
    np = stubs.NpShim()
    ns = {"__name__": "pyModeS.c_common_model"}
    ns.update(core.PATCH)
    ns.update(loader.HELPERS)
    ns.update({"__c_cast__": c_cast, "array": _Array, "PyBytes_GET_SIZE": len, "PyByteArray_GET_SIZE": len,
               "cos": np.cos, "acos": np.arccos, "fabs": core.s_abs, "pi": __import__("math").pi,
               "c_floor": np.floor, "bytes": c_bytes, "bytearray": c_bytes})
    exec(compile(tree, path + ":model", "exec"), ns)
    return ns, txt, decls
