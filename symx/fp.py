"""Binary64 back end: SymFP wraps a z3 Float64 term (round-to-nearest-even). Used where rounding IS the question
(cprNL guard windows, C floor/casts). libm / numpy transcendental functions are uninterpreted functions FP -> FP."""
import struct

import z3

from . import core
from .core import Ctx, SymBool, SymInt, Unsupported

F64 = z3.Float64()
RNE = z3.RNE()


def fpval(x):
    return z3.FPVal(float(x), F64)


_ABS_OPS = {}


def _abs_op(name):
    f = _ABS_OPS.get(name)
    if f is None:
        f = _ABS_OPS[name] = z3.Function(name, F64, F64, F64)
    return f


class SymFP:
    """t: z3 Float64 term.  np: the value is a numpy scalar in the real run (IEEE division: x/0 = inf, no exception).
    opaque: the value depends on an uninterpreted libm result; arithmetic on it is abstracted as uninterpreted binary
    functions FADD/FSUB/FMUL/FDIV (sound over-approximation: what is then decided is which operands reach which
    operation in which order, never a numeric fact)."""
    __slots__ = ("t", "np", "opaque")

    def __init__(self, t, np=False, opaque=False):
        self.t = t
        self.np = np
        self.opaque = opaque

    @staticmethod
    def of(o):
        if isinstance(o, SymFP):
            return o
        if isinstance(o, bool):
            o = int(o)
        if isinstance(o, int):
            if abs(o) > 2 ** 53:
                raise Unsupported("int too large for exact binary64 conversion")
            return SymFP(fpval(o))
        if isinstance(o, float):      # includes RFloat: the float value is what the real code computes with
            return SymFP(fpval(float(o)))
        if isinstance(o, SymInt):
            if o.isconst():
                return SymFP.of(o.constval())
            if max(abs(o.lo), abs(o.hi)) > 2 ** 53:
                raise Unsupported("SymInt too large for exact binary64 conversion")
            return SymFP(z3.fpToFP(RNE, z3.ToReal(o.toint()), F64))
        try:
            import numpy as np
            if isinstance(o, (np.floating, np.integer)):
                return SymFP.of(o.item())
        except ImportError:
            pass
        raise Unsupported("SymFP.of(%s)" % type(o).__name__)

    def _b(self, o, f):
        o = SymFP.of(o)
        return _apply(f, self, o)

    def _rb(self, o, f):
        o = SymFP.of(o)
        return _apply(f, o, self)

    def __add__(self, o):
        return self._b(o, z3.fpAdd)

    __radd__ = __add__

    def __sub__(self, o):
        return self._b(o, z3.fpSub)

    def __rsub__(self, o):
        return self._rb(o, z3.fpSub)

    def __mul__(self, o):
        return self._b(o, z3.fpMul)

    __rmul__ = __mul__

    def __truediv__(self, o):
        o = SymFP.of(o)
        if not (self.np or o.np) and bool(SymBool(z3.fpIsZero(o.t))):
            raise ZeroDivisionError("float division by zero")
        return _apply(z3.fpDiv, self, o)

    def __rtruediv__(self, o):
        return SymFP.of(o).__truediv__(self)

    def __pow__(self, k):
        if k == 2:
            return self * self          # CPython / numpy compute x**2 as x*x
        raise Unsupported("SymFP ** %r" % (k,))

    def __neg__(self):
        return SymFP(z3.fpNeg(self.t), self.np, self.opaque)

    def __pos__(self):
        return self

    def __abs__(self):
        return SymFP(z3.fpAbs(self.t), self.np, self.opaque)

    def _c(self, o, f):
        if o is None:
            raise TypeError("comparison between float and NoneType")
        return SymBool(f(self.t, SymFP.of(o).t))

    def __lt__(self, o):
        return self._c(o, z3.fpLT)

    def __le__(self, o):
        return self._c(o, z3.fpLEQ)

    def __gt__(self, o):
        return self._c(o, z3.fpGT)

    def __ge__(self, o):
        return self._c(o, z3.fpGEQ)

    def __eq__(self, o):
        if o is None or isinstance(o, (str, tuple, list)):
            return False
        return self._c(o, z3.fpEQ)

    def __ne__(self, o):
        if o is None or isinstance(o, (str, tuple, list)):
            return True
        return self._c(o, z3.fpNEQ)

    __hash__ = None

    def __bool__(self):
        return bool(SymBool(z3.Not(z3.fpIsZero(self.t))))

    def __float__(self):
        raise Unsupported("C-level float() of SymFP")

    def floor(self):
        return SymFP(z3.fpRoundToIntegral(z3.RTN(), self.t), True, self.opaque)

    def to_int(self):
        """int(x): ValueError for NaN, OverflowError for infinities, truncation otherwise"""
        if bool(SymBool(z3.fpIsNaN(self.t))):
            raise ValueError("cannot convert float NaN to integer")
        if bool(SymBool(z3.fpIsInf(self.t))):
            raise OverflowError("cannot convert float infinity to integer")
        r = z3.fpToReal(z3.fpRoundToIntegral(z3.RTZ(), self.t))
        si = SymInt(it=z3.ToInt(r), lo=-(1 << 1100), hi=1 << 1100)
        return si

    def __repr__(self):
        return "SymFP(%s)" % str(self.t)[:60]


_NAMES = {z3.fpAdd: "FADD", z3.fpSub: "FSUB", z3.fpMul: "FMUL", z3.fpDiv: "FDIV"}


def _apply(f, a, b):
    if a.opaque or b.opaque:
        return SymFP(_abs_op(_NAMES[f])(a.t, b.t), a.np or b.np, True)
    return SymFP(f(RNE, a.t, b.t), a.np or b.np, False)


def absop(name, a, b):
    """oracle-side constructor of the same abstract operation"""
    return _abs_op(name)(a, b)


core.SYMTYPES.append(SymFP)


def fp_value(model, t):
    """binary64 value of an FP term under a model, as a Python float (exact)"""
    v = model.eval(z3.fpToIEEEBV(t), model_completion=True)
    v = z3.simplify(v)
    if not z3.is_bv_value(v):
        raise Unsupported("cannot evaluate FP term")
    return struct.unpack(">d", v.as_long().to_bytes(8, "big"))[0]


COS = z3.Function("COS", F64, F64)
ACOS = z3.Function("ACOS", F64, F64)


def np_cos(x):
    # cos is even in every libm (argument sign is dropped first): COS is applied to |x|
    return SymFP(COS(z3.fpAbs(SymFP.of(x).t)), True, True)


def np_arccos(x):
    return SymFP(ACOS(SymFP.of(x).t), True, True)


def mentions_uf(terms):
    """does any of the z3 terms apply an uninterpreted function (libm / abstract arithmetic)?"""
    seen = set()
    stack = list(terms)
    while stack:
        t = stack.pop()
        i = t.get_id()
        if i in seen:
            continue
        seen.add(i)
        if z3.is_app(t):
            if t.decl().kind() == z3.Z3_OP_UNINTERPRETED and t.num_args() > 0:
                return True
            stack.extend(t.children())
    return False


def np_isclose(a, b, rtol=1e-05, atol=1e-08):
    """numpy.isclose on finite scalars: |a - b| <= atol + rtol * |b| evaluated in binary64"""
    a, b = SymFP.of(a), SymFP.of(b)
    lhs = z3.fpAbs(z3.fpSub(RNE, a.t, b.t))
    rhs = z3.fpAdd(RNE, fpval(atol), z3.fpMul(RNE, fpval(rtol), z3.fpAbs(b.t)))
    fin = z3.And(z3.Not(z3.fpIsNaN(a.t)), z3.Not(z3.fpIsInf(a.t)), z3.Not(z3.fpIsNaN(b.t)), z3.Not(z3.fpIsInf(b.t)))
    if not bool(SymBool(fin)):
        raise Unsupported("np.isclose on non-finite symbolic values")
    return SymBool(z3.fpLEQ(lhs, rhs))
