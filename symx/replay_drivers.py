"""Drivers executed inside the replay interpreter (unpatched pyModeS) for stateful / object-based targets."""
import sys
import types


def _stub_hw():
    for name in ("rtlsdr",):
        if name not in sys.modules:
            try:
                __import__(name)
            except Exception:
                sys.modules[name] = types.ModuleType(name)


def rtl_check_msg(msg):
    _stub_hw()
    from pyModeS.extra import rtlreader
    rd = object.__new__(rtlreader.RtlReader)
    return rd._check_msg(msg)


def same_object(paths):
    from symx.replay_server import resolve
    return resolve(paths[0]) is resolve(paths[1])
