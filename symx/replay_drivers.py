"""Drivers executed inside the replay interpreter (unpatched pyModeS) for stateful / object-based targets."""
import sys
import types


def _stub_hw():
    for name in ("rtlsdr",):
        if name not in sys.modules:
            try:
                __import__(name)
            except Exception:
                sys.modules[name] = types.ModuleType(name)


def rtl_check_msg(msg):
    _stub_hw()
    from pyModeS.extra import rtlreader
    rd = object.__new__(rtlreader.RtlReader)
    return rd._check_msg(msg)


def same_object(paths):
    from symx.replay_server import resolve
    return resolve(paths[0]) is resolve(paths[1])


def stream_read(arg):
    """feed `wire` (list of byte values) to a TcpClient in the pieces given by `cuts`; return the message strings each
    read produced"""
    import sys, types
    for name in ("zmq",):
        if name not in sys.modules:
            try:
                __import__(name)
            except Exception:
                m = types.ModuleType(name)
                sys.modules[name] = m
    from pyModeS.extra import tcpclient
    c = object.__new__(tcpclient.TcpClient)
    c.buffer = []
    c.current_msg = ""
    fmt = arg["fmt"]
    read = {"beast": c.read_beast_buffer, "beast_rssi": c.read_beast_buffer_rssi_piaware, "raw": c.read_raw_buffer,
            "skysense": c.read_skysense_buffer}[fmt]
    wire, cuts = arg["wire"], [0] + sorted(arg["cuts"]) + [len(arg["wire"])]
    outs = []
    for a, b in zip(cuts, cuts[1:]):
        if b <= a:
            continue
        c.buffer.extend(wire[a:b])
        r = read()
        outs.append([m[0] for m in (r or [])])
    return outs


def netsource_feed(arg):
    import sys, types
    if "zmq" not in sys.modules:
        try:
            __import__("zmq")
        except Exception:
            sys.modules["zmq"] = types.ModuleType("zmq")
    _stub_hw()
    from pyModeS.streamer import source

    class Flag:
        value = False

    class Pipe:
        def __init__(self):
            self.sent = []

        def send(self, o):
            self.sent.append({k: list(v) for k, v in o.items()})
    obj = object.__new__(source.NetSource)
    obj.reset_local_buffer()
    obj.stop_flag = Flag()
    obj.raw_pipe_in = Pipe()
    for call in arg["calls"]:
        obj.handle_messages([(m, t) for m, t in call])
    sent = obj.raw_pipe_in.sent
    return ([m for b in sent for m in b["adsb_msg"]] + list(obj.local_buffer_adsb_msg),
            [m for b in sent for m in b["commb_msg"]] + list(obj.local_buffer_commb_msg))


def decode_step(arg):
    """one Decode.process_raw() call from a given table state; returns the keys and a few fields of the table"""
    import sys, types
    if "zmq" not in sys.modules:
        try:
            __import__("zmq")
        except Exception:
            sys.modules["zmq"] = types.ModuleType("zmq")
    from pyModeS.streamer import decode
    d = object.__new__(decode.Decode)
    d.acs = {}
    for k, rec in arg["state"].items():
        r = {}
        for kk, v in rec.items():
            r[int(kk[1:]) if kk.startswith("#") else kk] = v
        d.acs[k] = r
    ll = arg.get("latlon")
    d.lat0, d.lon0 = (ll[0], ll[1]) if ll else (None, None)
    d.t = 0
    d.cache_timeout = 60
    d.dumpto = None
    d.process_raw([x[0] for x in arg["adsb"]], [x[1] for x in arg["adsb"]], [x[0] for x in arg["commb"]],
                  [x[1] for x in arg["commb"]], arg["tnow"])
    return {"keys": sorted(d.acs), "t": {k: v.get("t") for k, v in d.acs.items()},
            "lat": {k: v.get("lat") for k, v in d.acs.items()}, "lon": {k: v.get("lon") for k, v in d.acs.items()},
            "live": {k: v.get("live") for k, v in d.acs.items()}, "tpos": {k: v.get("tpos") for k, v in d.acs.items()}}


def rtl_process(arg):
    _stub_hw()
    from pyModeS.extra import rtlreader
    rd = object.__new__(rtlreader.RtlReader)
    rd.signal_buffer = list(arg["buffer"])
    rd.debug = False
    rd.noise_floor = 1e6
    return [m[0] for m in rd._process_buffer()]


def crc_sequence(msg):
    from pyModeS import common
    return (common.crc(msg), common.crc(msg, True), common.crc(msg), common.crc(msg, encode=True))


def cprnl_sequence(xs):
    from pyModeS import common
    return [int(common.cprNL(x)) for x in xs]


def call_sequence(calls):
    """[(dotted function path, [args])...] executed in order in this interpreter; returns the outcome of each"""
    from symx.replay_server import resolve
    out = []
    for path, args in calls:
        try:
            r = resolve(path)(*args)
            if hasattr(r, "item"):
                r = r.item()
            out.append(["ret", r])
        except BaseException as e:      # noqa
            out.append(["exc", type(e).__name__])
    return out
