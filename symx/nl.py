"""cprNL staircase stub for the CPR checks (DESIGN.md 4.3).

The real cprNL goes through numpy cos/arccos; inside C03/C04/C05/C17 it is replaced by the staircase that the REAL
function exhibits (nl_extract.py, regenerated whenever py_common.py changes), forked per segment with model guidance.
Assumption (A-NL): the real cprNL is constant between consecutive extracted breakpoints.
"""
import bisect
import hashlib
import json
import os
import subprocess
from fractions import Fraction

import z3

from . import core
from .core import SymReal, Unsupported, is_sym

VERIF = os.path.dirname(os.path.dirname(os.path.abspath(__file__)))
_STAIR = {}


class Stair:
    def __init__(self, d):
        self.raw = d
        # segment k: bounds[k] <= x < bounds[k+1] -> values[k]; bounds[0] = -inf, bounds[-1] = +inf
        self.values = [d["start"]]
        self.cuts = []          # Fractions: first double that has the new value
        for lo, hi, va, vb in d["breaks"]:
            if va != self.values[-1]:
                raise Unsupported("cprNL staircase extraction inconsistent")
            self.cuts.append(Fraction(float.fromhex(hi)))
            self.values.append(vb)
        for x, v in d["beyond"].items():
            k = self.index(Fraction(float(x)))
            if self.values[k] != v:
                raise Unsupported("cprNL is not constant beyond +-90 (%s -> %r)" % (x, v))
        self.hint = None

    def index(self, x):
        return bisect.bisect_right(self.cuts, x)

    def cond(self, k, t):
        cs = []
        if k > 0:
            cs.append(t >= core.rval(self.cuts[k - 1]))
        if k < len(self.cuts):
            cs.append(t < core.rval(self.cuts[k]))
        return z3.And(cs) if cs else z3.BoolVal(True)

    def table(self):
        """[(lo, hi, value)] with float bounds, for evidence / C06"""
        out = []
        for k, v in enumerate(self.values):
            lo = float(self.cuts[k - 1]) if k > 0 else float("-inf")
            hi = float(self.cuts[k]) if k < len(self.cuts) else float("inf")
            out.append((lo, hi, v))
        return out


def extract(src=None, module="pyModeS.py_common", relfile="pyModeS/py_common.py"):
    src = src or os.environ.get("SYMX_REPO_SRC", "/repo/src")
    f = os.path.join(src, relfile)
    h = hashlib.sha256(open(f, "rb").read() + open(os.path.join(VERIF, "symx", "nl_extract.py"), "rb").read()
                       + module.encode()).hexdigest()[:20]
    if h in _STAIR:
        return _STAIR[h]
    cdir = os.path.join(VERIF, "cache")
    os.makedirs(cdir, exist_ok=True)
    cf = os.path.join(cdir, "nl-%s.json" % h)
    if os.path.exists(cf):
        try:
            d = json.load(open(cf))
        except ValueError:
            d = None
    else:
        d = None
    if d is None:
        env = dict(os.environ)
        env["SYMX_REPO_SRC"] = src
        env["SYMX_NL_MODULE"] = module
        env.pop("PYTHONPATH", None)
        py = os.environ.get("SYMX_REPLAY_PYTHON", "/venv/bin/python")
        out = subprocess.run([py, os.path.join(VERIF, "symx", "nl_extract.py")], env=env, cwd="/",
                             capture_output=True, text=True, timeout=1800)
        if out.returncode != 0:
            raise Unsupported("cprNL staircase extraction failed: %s" % out.stderr[-400:])
        d = json.loads(out.stdout)
        tmp = cf + ".%d.tmp" % os.getpid()
        json.dump(d, open(tmp, "w"))
        os.replace(tmp, cf)
    st = Stair(d)
    _STAIR[h] = st
    return st


def make_stub(stair, real_fn):
    def cprNL(lat):
        if not is_sym(lat):
            return real_fn(lat)
        t = SymReal.of(lat).t

        def locate(v):
            return stair.index(_frac(v))
        k = core.pick(t, locate, lambda k: stair.cond(k, t), len(stair.values))
        v = stair.values[k]
        if isinstance(v, str):
            import builtins
            raise getattr(builtins, v.split(":", 1)[1], RuntimeError)("cprNL raises here")
        return v
    cprNL.__symx_stub__ = True
    return cprNL


def _frac(v):
    if z3.is_int_value(v):
        return Fraction(v.as_long())
    if z3.is_rational_value(v):
        return Fraction(v.numerator_as_long(), v.denominator_as_long())
    if z3.is_algebraic_value(v):
        a = v.approx(40)
        return Fraction(a.numerator_as_long(), a.denominator_as_long())
    raise Unsupported("cannot evaluate %s" % v)


def install(pm):
    """replace pyModeS.common.cprNL by the staircase stub (idempotent); returns the Stair"""
    st = extract()
    cur = pm.common.cprNL
    if not getattr(cur, "__symx_stub__", False):
        pm.common.cprNL = make_stub(st, cur)
    return st
