"""Load pyModeS from /repo/src (current working tree) with the symx rewrites and builtin models."""
import ast
import importlib.abc
import importlib.machinery
import importlib.util
import os
import sys
import types

from . import core, rewrite

REPO_SRC = os.environ.get("SYMX_REPO_SRC", "/repo/src")

IFCONV = {
    "pyModeS.py_common": ("crc", "crc_legacy"),
    "pyModeS.decoder.uplink": ("uplink_icao",),
}

HELPERS = {
    "__symx_getitem__": core.symx_getitem,
    "__symx_get__": core.symx_get,
    "__symx_in__": core.symx_in,
    "__symx_fmt__": core.symx_fmt,
    "__symx_join__": core.symx_join,
    "__symx_strformat__": core.symx_strformat,
    "__symx_issym__": core.symx_issym,
    "__symx_ite__": core.symx_ite,
    "__symx_div__": core.symx_div,
    "__symx_fstring__": core.symx_fstring,
    "__symx_not__": core.symx_not,
}


class _Loader(importlib.machinery.SourceFileLoader):
    extra_globals = {}

    def source_to_code(self, data, path, *, _optimize=-1):
        tree = ast.parse(data, path)
        tree = rewrite.transform(tree, IFCONV.get(self.name, ()))
        return compile(tree, path, "exec", dont_inherit=True, optimize=_optimize)

    def get_code(self, fullname):
        # never use/write .pyc: the code object depends on the rewrite
        data = self.get_data(self.get_filename(fullname))
        return self.source_to_code(data, self.get_filename(fullname))

    def exec_module(self, module):
        module.__dict__.update(core.PATCH)
        module.__dict__.update(HELPERS)
        super().exec_module(module)
        if module.__dict__.get("wrap") is not None and getattr(module.__dict__["wrap"], "__module__", "") == "textwrap":
            module.__dict__["wrap"] = core.s_wrap
        for hook in POST_EXEC:
            hook(module)


POST_EXEC = []


class _Finder(importlib.abc.MetaPathFinder):
    def __init__(self, src):
        self.src = src

    def find_spec(self, name, path, target=None):
        if name != "pyModeS" and not name.startswith("pyModeS."):
            return None
        if name.endswith(".c_common") or name.endswith(".flarm.decode"):
            raise ModuleNotFoundError(name + " (compiled twin is never loaded by symx)")
        rel = name.replace(".", "/")
        for cand, pkg in ((f"{self.src}/{rel}/__init__.py", True), (f"{self.src}/{rel}.py", False)):
            if os.path.exists(cand):
                return importlib.util.spec_from_file_location(
                    name, cand, loader=_Loader(name, cand),
                    submodule_search_locations=[os.path.dirname(cand)] if pkg else None)
        return None


_loaded = None
_MODSTATE = []       # (container object, pristine shallow copy) of every mutable module-level container of pyModeS


def _snapshot_module_state():
    del _MODSTATE[:]
    for name, mod in list(sys.modules.items()):
        if name == "pyModeS" or name.startswith("pyModeS."):
            for k, v in list(vars(mod).items()):
                if k.startswith("__"):
                    continue
                _register_container(v, 0)


def _register_container(v, depth):
    """v and (three levels of) the containers nested in it: tables of tables are module state too"""
    if type(v) not in (dict, list, set) or any(v is o for o, _ in _MODSTATE):
        return
    _MODSTATE.append((v, type(v)(v)))
    if depth < 3 and type(v) in (dict, list):
        for x in (v.values() if isinstance(v, dict) else v):
            _register_container(x, depth + 1)


_LRU_CACHES = []


def _symx_lru_cache(maxsize=128, typed=False):
    """functools.lru_cache for the code under test: a memo whose look-up compares the arguments with == (symbolic
    arguments fork on equality with every remembered call) and which is emptied before every explored path"""
    def deco(fn):
        memo = []
        _LRU_CACHES.append(memo)

        def wrapper(*args, **kw):
            key = (args, tuple(sorted(kw.items())))
            for k, v in memo:
                if len(k[0]) == len(args) and len(k[1]) == len(key[1]) and \
                        all(bool(a == b) for a, b in zip(k[0], args)) and all(bool(a == b) for a, b in zip(k[1], key[1])):
                    return v
            v = fn(*args, **kw)
            memo.append((key, v))
            return v
        wrapper.__wrapped__ = fn
        wrapper.cache_clear = memo.clear
        wrapper.__name__, wrapper.__doc__ = getattr(fn, "__name__", "f"), getattr(fn, "__doc__", None)
        return wrapper
    if callable(maxsize):       # @lru_cache without parentheses
        fn, maxsize = maxsize, 128
        return deco(fn)
    return deco


def _register_late_module(module):
    """modules of pyModeS imported after load_repo (uplink, extra.*): their module-level containers are state too"""
    if _loaded is not None:
        for k, v in list(vars(module).items()):
            if not k.startswith("__"):
                _register_container(v, 0)


POST_EXEC.append(_register_late_module)


def _snapshot_now():
    return [(obj, type(obj)(obj)) for obj, _ in _MODSTATE]


def _restore_to(snap):
    for obj, saved in snap:
        if not _same(obj, saved):
            if isinstance(obj, list):
                obj[:] = saved
            else:
                obj.clear()
                obj.update(saved)


def _same(obj, pristine):
    """identity-wise equality of a container and its shallow copy (never calls == on proxies)"""
    if len(obj) != len(pristine):
        return False
    if isinstance(obj, list):
        return all(a is b for a, b in zip(obj, pristine))
    if isinstance(obj, dict):
        return all(k1 is k2 and v1 is v2 for (k1, v1), (k2, v2) in zip(obj.items(), pristine.items()))
    return all(any(x is y for y in pristine) for x in obj)


def _restore_module_state():
    """module-level caches must not carry values from one explored path into the next"""
    for c in _LRU_CACHES:
        c.clear()
    for obj, pristine in _MODSTATE:
        if not _same(obj, pristine):
            if isinstance(obj, list):
                obj[:] = pristine
            else:
                obj.clear()
                obj.update(pristine)


_REAL_LRU = []


def _install_lru_dispatch():
    """functools.lru_cache / functools.cache: functions defined in pyModeS get the resettable ==-comparing memo,
    everything else (z3, numpy, the standard library) keeps the real implementation"""
    import functools
    if _REAL_LRU:
        return
    real_lru, real_cache = functools.lru_cache, getattr(functools, "cache", None)
    _REAL_LRU.append(real_lru)

    def is_ours(fn):
        return callable(fn) and str(getattr(fn, "__module__", "")).startswith("pyModeS")

    def lru_cache(maxsize=128, typed=False):
        if callable(maxsize) and not isinstance(maxsize, int):
            return _symx_lru_cache(maxsize) if is_ours(maxsize) else real_lru(maxsize)

        def deco(fn):
            return _symx_lru_cache(maxsize, typed)(fn) if is_ours(fn) else real_lru(maxsize, typed)(fn)
        return deco
    functools.lru_cache = lru_cache
    if real_cache is not None:
        functools.cache = lambda fn: _symx_lru_cache(None)(fn) if is_ours(fn) else real_cache(fn)


def load_repo(src=None, force=False):
    """import pyModeS from the current source with patched namespaces; py_common is forced."""
    global _loaded
    src = src or REPO_SRC
    if _loaded is not None and not force:
        return _loaded
    for k in [k for k in sys.modules if k == "pyModeS" or k.startswith("pyModeS.")]:
        del sys.modules[k]
    for stub in ("zmq", "rtlsdr"):
        if stub not in sys.modules or getattr(sys.modules[stub], "__symx_stub__", False) is False:
            m = types.ModuleType(stub)
            m.__symx_stub__ = True
            if stub == "zmq":
                err = types.ModuleType("zmq.error")
                err.Again = type("Again", (Exception,), {})
                m.error = err
                sys.modules["zmq.error"] = err
            sys.modules[stub] = m
    sys.meta_path[:] = [f for f in sys.meta_path if not isinstance(f, _Finder)]
    sys.meta_path.insert(0, _Finder(src))
    _install_lru_dispatch()      # stays installed: pyModeS modules imported later (uplink, extra) must get the model too
    import pyModeS
    assert pyModeS.common.__name__ == "pyModeS.py_common", pyModeS.common.__name__
    assert pyModeS.__file__.startswith(src), pyModeS.__file__
    from . import stubs
    stubs.install(pyModeS)
    _loaded = pyModeS
    _snapshot_module_state()
    if _restore_module_state not in core.PRE_PATH_HOOKS:
        core.PRE_PATH_HOOKS.append(_restore_module_state)
    core.STATE_SNAPSHOT[0] = (_snapshot_now, _restore_to)
    return pyModeS


def source_files(src=None):
    src = src or REPO_SRC
    out = []
    for root, _, files in os.walk(os.path.join(src, "pyModeS")):
        for f in files:
            if f.endswith((".py", ".pyx", ".pxd")):
                out.append(os.path.join(root, f))
    return sorted(out)
