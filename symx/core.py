"""symx core: proxy values that let CPython execute the real pyModeS source symbolically.

Value model
-----------
Bit      GF(2)-affine normal form  c XOR atom_1 XOR ... XOR atom_k ; atoms are z3 BV1 terms
SymInt   exact Python int: optional MSB-first list of Bit (unsigned) and/or a z3 Int term, plus a
         conservative interval [lo, hi]
SymReal  z3 Real (Python float constants are taken as their shortest-repr decimal rationals)
SymBool  z3 Bool; __bool__ asks the path explorer (this is where paths fork)
SymStr   fixed-length string of concrete chars / BitChar / HexChar / TabChar

Everything not modelled raises Unsupported (a BaseException, so code under test cannot swallow it):
the run then ends inconclusive (exit 2), never in a wrong verdict.
"""
import builtins
import re as _re
from fractions import Fraction

import z3


class Unsupported(BaseException):
    """A construct the proxies do not model; the check is inconclusive."""


class PathAbort(BaseException):
    """Internal: current path is infeasible / abandoned."""


# --------------------------------------------------------------------------- explorer

class Stats:
    def __init__(self):
        self.paths = 0
        self.decisions = 0
        self.solver_calls = 0
        self.solver_s = 0.0

    def add(self, o):
        self.paths += o.paths
        self.decisions += o.decisions
        self.solver_calls += o.solver_calls
        self.solver_s += o.solver_s


STATS = Stats()
FEAS_TIMEOUT_MS = 30000


def _mk_solver():
    s = z3.Solver()
    s.set("timeout", FEAS_TIMEOUT_MS)
    s.set("random_seed", 1)
    return s


class Ctx:
    cur = None

    def __init__(self, prefix=(), base=(), epoch=0, base_key=None):
        self.epoch = epoch
        self.base_key = base_key
        self.decided = {}
        self.prefix = list(prefix)
        self.pos = 0
        self.trace = []
        self.pc = list(base)
        self.nbase = len(base)
        self.pending = []
        self.solver = None
        self.nadded = 0
        self.notes = []
        self.margins = []     # real terms whose sign decided a branch (robust-sample selection)
        self.floors = []      # real terms that went through floor/trunc

    def _solver(self):
        if self.solver is None:
            self.solver = _mk_solver()
        while self.nadded < len(self.pc):
            self.solver.add(self.pc[self.nadded])
            self.nadded += 1
        return self.solver

    def feasible(self, cond):
        import time
        s = self._solver()
        t = time.time()
        s.push()
        s.add(cond)
        r = s.check()
        s.pop()
        STATS.solver_calls += 1
        STATS.solver_s += time.time() - t
        return r != z3.unsat  # unknown: explore conservatively

    def must(self, cond):
        """True iff the path condition entails cond."""
        return not self.feasible(z3.Not(cond))

    def model(self):
        """a model of the current path condition (None if infeasible)"""
        import time
        s = self._solver()
        t = time.time()
        r = s.check()
        STATS.solver_calls += 1
        STATS.solver_s += time.time() - t
        if r == z3.sat:
            return s.model()
        if r == z3.unsat:
            return None
        raise Unsupported("solver unknown on a path condition")

    def branch(self, cond, margin=None):
        cond = z3.simplify(cond)
        if z3.is_true(cond):
            return True
        if z3.is_false(cond):
            return False
        if margin is not None:
            self.margins.append(margin)
        cid = cond.get_id()
        if cid in self.decided:          # same condition again on this path: already part of the path condition
            return self.decided[cid]
        if self.base_key is not None:    # decided by the work item's assumptions alone (shared across runs)
            bk = (self.base_key, cid)
            bd = _BASE_DECIDED.get(bk, 0)
            if bd == 0:
                bd = _base_decide(self, cond)
                _BASE_DECIDED[bk] = bd
                _BASE_KEEP.append(cond)
            if bd is not None:
                self.decided[cid] = bd
                return bd
        if self.pos < len(self.prefix):
            d = self.prefix[self.pos]
        else:
            can_t = self.feasible(cond)
            can_f = self.feasible(z3.Not(cond))
            if can_t and can_f:
                self.pending.append(self.trace + [False])
                d = True
            elif can_t:
                d = True
            elif can_f:
                d = False
            else:
                raise PathAbort("infeasible")
            self.prefix.append(d)
        self.pos += 1
        self.trace.append(d)
        self.pc.append(cond if d else z3.Not(cond))
        self.decided[cid] = d
        STATS.decisions += 1
        return d

    def assume(self, cond):
        """Add a constraint to the path (used by stubs with contracts); abort the path if infeasible."""
        cond = z3.simplify(cond)
        if z3.is_true(cond):
            return
        self.pc.append(cond)


_BASE_DECIDED = {}
_BASE_KEEP = []        # keeps the z3 terms alive so that their ids are not reused
_BASE_SOLVERS = {}


def _base_decide(c, cond):
    """True / False if the base assumptions alone decide cond, else None"""
    import time
    s = _BASE_SOLVERS.get(c.base_key)
    if s is None:
        s = _mk_solver()
        for a in c.pc[:c.nbase]:
            s.add(a)
        _BASE_SOLVERS.clear()
        _BASE_SOLVERS[c.base_key] = s
    t = time.time()
    out = None
    s.push()
    s.add(z3.Not(cond))
    r = s.check()
    s.pop()
    STATS.solver_calls += 1
    if r == z3.unsat:
        out = True
    else:
        s.push()
        s.add(cond)
        r = s.check()
        s.pop()
        STATS.solver_calls += 1
        if r == z3.unsat:
            out = False
    STATS.solver_s += time.time() - t
    return out


class Path:
    __slots__ = ("pc", "kind", "value", "notes", "margins", "floors")

    def __init__(self, pc, kind, value, notes, margins=(), floors=()):
        self.pc, self.kind, self.value, self.notes = pc, kind, value, notes
        self.margins, self.floors = list(margins), list(floors)

    def __repr__(self):
        return "Path(%s, %r, |pc|=%d)" % (self.kind, self.value, len(self.pc))


STATE_SNAPSHOT = [None]     # loader installs (snapshot(), restore(snap)) for module-level containers of the code under test


def explore(fn, base=(), maxpaths=20000, base_key=None, on_path=None):
    """Enumerate every feasible path of fn() (re-execution DFS). Returns list of Path.
    kind is 'ret' or 'exc'. Exceeding maxpaths is a hard error (Unsupported), never a truncation."""
    work = [[]]
    out = []
    outer = Ctx.cur
    global _PICK_EPOCH
    _PICK_EPOCH += 1
    epoch = _PICK_EPOCH
    _inner_snap = STATE_SNAPSHOT[0][0]() if (outer is not None and STATE_SNAPSHOT[0] is not None) else None
    try:
        while work:
            sched = work.pop()
            if outer is None:            # top-level exploration: every path starts from the pristine module state
                for hook in PRE_PATH_HOOKS:
                    hook()
            elif _inner_snap is not None:   # summary: every callee path starts from the state at the call
                STATE_SNAPSHOT[0][1](_inner_snap)
            c = Ctx(sched, base, epoch, base_key)
            Ctx.cur = c
            try:
                r = ("ret", fn())
            except PathAbort:
                r = None
            except Unsupported:
                raise
            except Exception as e:  # outcome of the code under test
                r = ("exc", e)
            work.extend(c.pending)
            if r is not None:
                out.append(Path(list(c.pc), r[0], r[1], c.notes, c.margins, c.floors))
                STATS.paths += 1
                if on_path is not None and on_path(out[-1]):
                    break          # the caller has what it needs (e.g. a reproduced violation): stop exploring
                if len(out) > maxpaths:
                    raise Unsupported("path cap %d exceeded" % maxpaths)
    finally:
        Ctx.cur = outer
        if _inner_snap is not None:
            STATE_SNAPSHOT[0][1](_inner_snap)
        for k in [k for k in _PICK_CACHE if k[0] == epoch]:
            del _PICK_CACHE[k]
        for k in [k for k in _SUMMARY_CACHE if k[0] == epoch]:
            del _SUMMARY_CACHE[k]
    return out


PRE_PATH_HOOKS = []      # run before every path execution (the loader restores module-level containers here)
_PICK_EPOCH = 0
_PICK_CACHE = {}


def pick(term, locate, cond_of, nparts):
    """Model-guided fork over a finite partition of the values of a z3 term.
    locate(model value) -> part index; cond_of(k) -> z3 Bool 'term lies in part k'. Returns the chosen index;
    every feasible part is explored on some path (the False side of each decision continues the search)."""
    c = Ctx.cur
    if c is None:
        raise Unsupported("pick outside an exploration")
    tried = []
    while True:
        key = (c.epoch, tuple(c.trace), len(tried))
        k = _PICK_CACHE.get(key)
        if k is None:
            m = c.model()
            if m is None:
                raise PathAbort("pick: infeasible")
            k = locate(m.eval(term, model_completion=True))
            _PICK_CACHE[key] = k
        if k in tried:
            raise Unsupported("pick: partition is not exclusive")
        tried.append(k)
        if len(tried) > nparts:
            raise Unsupported("pick: more parts than the partition has")
        if c.branch(cond_of(k)):
            return k


# --------------------------------------------------------------------------- function summaries

_SUMMARY_CACHE = {}


def skey(x):
    """structural key of a (possibly symbolic) argument"""
    if isinstance(x, SymStr):
        return ("S",) + tuple(skey(c) for c in x.chars)
    if isinstance(x, BitChar):
        return ("b", x.b.c, x.b.atoms)
    if isinstance(x, HexChar):
        return ("h", tuple((b.c, b.atoms) for b in x.nib), x.upper.get_id())
    if isinstance(x, TabChar):
        return ("t", x.table, skey(x.idx))
    if isinstance(x, SymInt):
        if x.bits is not None:
            return ("i", tuple((b.c, b.atoms) for b in x.bits))
        return ("I", x._it.get_id())
    if isinstance(x, SymBool):
        return ("B", x.t.get_id())
    if isinstance(x, SymReal):
        return ("R", x.t.get_id())
    if isinstance(x, (str, int, float, bool, type(None))):
        return x
    if isinstance(x, (tuple, list)):
        return tuple(skey(v) for v in x)
    raise Unsupported("skey(%s)" % type(x).__name__)


def summarized(fn, name=None):
    """Wrap a pure function with boolean / None / small-int results: a call with symbolic arguments explores the
    callee's paths ONCE (under the work item's assumptions only, so the result can be reused on every outer path) and
    returns one merged value instead of forking the caller.  Exceptions of the callee remain forks of the caller."""
    nm = name or getattr(fn, "__name__", "fn")

    def wrapper(*args, **kw):
        c = Ctx.cur
        if c is None or kw or not any(is_sym(a) for a in args):
            return fn(*args, **kw)
        key = (c.epoch, nm, skey(args))
        ent = _SUMMARY_CACHE.get(key)
        if ent is None:
            base = c.pc[:c.nbase]
            paths = explore(lambda: fn(*args), base=base)
            Ctx.cur = c
            nb = len(base)
            groups = {}       # outcome key -> list of z3 conds
            for p in paths:
                cond = z3.And(p.pc[nb:]) if len(p.pc) > nb else z3.BoolVal(True)
                if p.kind == "exc":
                    groups.setdefault(("exc", type(p.value)), []).append(cond)
                elif isinstance(p.value, SymBool):
                    groups.setdefault(("ret", True), []).append(z3.And(cond, p.value.t))
                    groups.setdefault(("ret", False), []).append(z3.And(cond, z3.Not(p.value.t)))
                elif p.value is None or isinstance(p.value, (bool, int, str)):
                    groups.setdefault(("ret", p.value), []).append(cond)
                else:
                    raise Unsupported("summary of %s: unmergeable result %s" % (nm, type(p.value).__name__))
            ent = {k: z3.simplify(z3.Or(v)) for k, v in groups.items()}
            _SUMMARY_CACHE[key] = ent
        rets = [(k[1], t) for k, t in ent.items() if k[0] == "ret"]
        for k, t in ent.items():
            if k[0] == "exc" and bool(SymBool(t)):
                raise k[1]("raised inside summarized %s" % nm)
        if rets and all(isinstance(v, bool) for v, _ in rets):
            tt = [t for v, t in rets if v is True]
            return SymBool(z3.Or(tt) if len(tt) > 1 else tt[0]) if tt else False
        # general small outcome set: fork the caller per distinct value
        for v, t in rets[:-1]:
            if bool(SymBool(t)):
                return v
        if rets:
            return rets[-1][0]
        raise PathAbort("summary: no outcome")
    wrapper.__symx_summary__ = fn
    wrapper.__name__ = nm
    return wrapper


# --------------------------------------------------------------------------- bits (GF(2) normal form)

ATOMS = []       # z3 BV1 terms
ATOMIDX = {}     # z3 ast id -> index
ATOMTAG = {}     # index -> (field key, bit position)  for recognising whole Int-typed fields
INTFIELDS = {}   # field key -> (z3 Int term, width)
_ONE = z3.BitVecVal(1, 1)
_ZERO = z3.BitVecVal(0, 1)


class Bit:
    __slots__ = ("c", "atoms", "_z")

    def __init__(self, c, atoms=frozenset()):
        self.c = c
        self.atoms = atoms
        self._z = None

    def isconst(self):
        return not self.atoms

    def z3(self):
        if self._z is None:
            t = None
            for a in sorted(self.atoms):
                t = ATOMS[a] if t is None else t ^ ATOMS[a]
            if t is None:
                t = _ONE if self.c else _ZERO
            elif self.c:
                t = t ^ _ONE
            self._z = t
        return self._z

    def true(self):
        """z3 Bool: this bit is 1"""
        if not self.atoms:
            return z3.BoolVal(bool(self.c))
        return self.z3() == _ONE

    def __repr__(self):
        return "Bit(%d,%s)" % (self.c, sorted(self.atoms))


ZERO1 = Bit(0)
ONE1 = Bit(1)


def atom(t, tag=None):
    k = t.get_id()
    i = ATOMIDX.get(k)
    if i is None:
        i = len(ATOMS)
        ATOMIDX[k] = i
        ATOMS.append(t)
        if tag is not None:
            ATOMTAG[i] = tag
    return Bit(0, frozenset((i,)))


def tobit(t):
    if isinstance(t, Bit):
        return t
    if isinstance(t, int):
        return ONE1 if t else ZERO1
    if z3.is_bv_value(t):
        return ONE1 if t.as_long() else ZERO1
    return atom(t)


def bxor(a, b):
    if not b.atoms and not b.c:
        return a
    if not a.atoms and not a.c:
        return b
    return Bit(a.c ^ b.c, a.atoms ^ b.atoms)


def band(a, b):
    if not a.atoms:
        return b if a.c else ZERO1
    if not b.atoms:
        return a if b.c else ZERO1
    if a.c == b.c and a.atoms == b.atoms:
        return a
    return atom(a.z3() & b.z3())


def bor(a, b):
    if not a.atoms:
        return ONE1 if a.c else b
    if not b.atoms:
        return ONE1 if b.c else a
    if a.c == b.c and a.atoms == b.atoms:
        return a
    return atom(a.z3() | b.z3())


def bnot(a):
    return Bit(a.c ^ 1, a.atoms)


def bool2bit(cond):
    """z3 Bool -> Bit"""
    cond = z3.simplify(cond)
    if z3.is_true(cond):
        return ONE1
    if z3.is_false(cond):
        return ZERO1
    return atom(z3.If(cond, _ONE, _ZERO))


# --------------------------------------------------------------------------- SymBool

class SymBool:
    __slots__ = ("t", "bit", "margin")

    def __init__(self, t, bit=None, margin=None):
        self.t = t
        self.bit = bit
        self.margin = margin

    def __bool__(self):
        c = Ctx.cur
        if c is None:
            raise Unsupported("SymBool evaluated outside an exploration")
        return c.branch(self.t, self.margin)

    def __and__(self, o):
        return SymBool(z3.And(self.t, tobool(o)))

    __rand__ = __and__

    def __or__(self, o):
        return SymBool(z3.Or(self.t, tobool(o)))

    __ror__ = __or__

    def __invert__(self):
        return SymBool(z3.Not(self.t))

    def __eq__(self, o):
        return SymBool(self.t == tobool(o))

    def __ne__(self, o):
        return SymBool(self.t != tobool(o))

    __hash__ = None

    def __index__(self):
        return int(bool(self))

    def __repr__(self):
        return "SymBool(%s)" % str(self.t)[:60]


def tobool(o):
    if isinstance(o, SymBool):
        return o.t
    if isinstance(o, SymInt):
        return o.nonzero()
    if isinstance(o, SymReal):
        return o.t != 0
    if isinstance(o, (bool, int)):
        return z3.BoolVal(bool(o))
    if z3.is_expr(o):
        return o
    raise Unsupported("tobool(%s)" % type(o).__name__)


SYMTYPES = []      # filled below; fp.py appends SymFP


def is_sym(x):
    return isinstance(x, tuple(SYMTYPES))


# --------------------------------------------------------------------------- SymInt

def _ival(v):
    return z3.IntVal(v)


class SymInt:
    __slots__ = ("bits", "_it", "lo", "hi", "_eqc", "tagchar")

    def __init__(self, bits=None, it=None, lo=None, hi=None):
        if bits is not None:
            bits = list(bits)
            while len(bits) > 1 and not bits[0].atoms and not bits[0].c:
                bits.pop(0)
            if not bits:
                bits = [ZERO1]
            self.bits = bits
            self.lo = 0 if lo is None else max(lo, 0)
            h = (1 << len(bits)) - 1
            self.hi = h if hi is None else min(hi, h)
        else:
            self.bits = None
            if lo is None or hi is None:
                raise Unsupported("SymInt from Int term needs an interval")
            self.lo, self.hi = lo, hi
        self._it = it

    # ---- conversions
    @staticmethod
    def lift(o):
        if isinstance(o, SymInt):
            return o
        if isinstance(o, SymBool):
            return SymInt(bits=[o.bit if o.bit is not None else bool2bit(o.t)])
        if isinstance(o, bool):
            o = int(o)
        if isinstance(o, int):
            if o >= 0:
                return SymInt(bits=[ONE1 if c == "1" else ZERO1 for c in builtins.bin(o)[2:]], it=_ival(o))
            return SymInt(it=_ival(o), lo=o, hi=o)
        raise Unsupported("SymInt.lift(%s)" % type(o).__name__)

    def isconst(self):
        if self.bits is not None:
            return all(b.isconst() for b in self.bits)
        return self.lo == self.hi

    def constval(self):
        if self.bits is not None:
            return builtins.int("".join(str(b.c) for b in self.bits), 2)
        return self.lo

    def toint(self):
        """z3 Int term"""
        if self._it is None:
            self._it = bits_to_int(self.bits)
        return self._it

    def getbits(self):
        if self.bits is None:
            lo, hi = self.lo, self.hi
            if lo < 0:
                c = Ctx.cur
                if c is not None and c.must(self._it >= 0):
                    lo = 0
                else:
                    raise Unsupported("bit operation on a possibly negative SymInt")
            w = max(hi.bit_length(), 1)
            bv = z3.Int2BV(self._it, w)
            self.bits = [tobit(z3.simplify(z3.Extract(i, i, bv))) for i in reversed(range(w))]
        return self.bits

    def nonzero(self):
        if self.bits is not None:
            nz = [b for b in self.bits if b.atoms or b.c]
            if not nz:
                return z3.BoolVal(False)
            if any(not b.atoms for b in nz):
                return z3.BoolVal(True)
            return z3.Or([b.true() for b in nz]) if len(nz) > 1 else nz[0].true()
        return self._it != 0

    # ---- arithmetic (exact, z3 Int)
    def _ar(self, o, f, fi):
        if isinstance(o, float):
            return NotImplemented
        if isinstance(o, SymReal):
            return NotImplemented
        o = SymInt.lift(o)
        lo, hi = fi(self.lo, self.hi, o.lo, o.hi)
        return SymInt(it=f(self.toint(), o.toint()), lo=lo, hi=hi)

    def __add__(self, o):
        if isinstance(o, (int, SymInt)) and not isinstance(o, bool):
            o2 = SymInt.lift(o)
            if self.bits is not None and o2.bits is not None:
                a, b = self.bits, o2.bits
                n = max(len(a), len(b))
                a = [ZERO1] * (n - len(a)) + a
                b = [ZERO1] * (n - len(b)) + b
                if all((not x.atoms and not x.c) or (not y.atoms and not y.c) for x, y in zip(a, b)):
                    return SymInt(bits=[bxor(x, y) for x, y in zip(a, b)])
        if isinstance(o, (float, SymReal)):
            return SymReal.of(self) + o
        return self._ar(o, lambda a, b: a + b, lambda al, ah, bl, bh: (al + bl, ah + bh))

    __radd__ = __add__

    def __sub__(self, o):
        if isinstance(o, (float, SymReal)):
            return SymReal.of(self) - o
        return self._ar(o, lambda a, b: a - b, lambda al, ah, bl, bh: (al - bh, ah - bl))

    def __rsub__(self, o):
        if isinstance(o, (float, SymReal)):
            return SymReal.of(o) - SymReal.of(self)
        return SymInt.lift(o) - self

    def __mul__(self, o):
        if isinstance(o, (float, SymReal)):
            return SymReal.of(self) * o
        if isinstance(o, int) and not isinstance(o, bool) and o > 0 and (o & (o - 1)) == 0 and self.bits is not None:
            return self << (o.bit_length() - 1)

        def fi(al, ah, bl, bh):
            ps = [al * bl, al * bh, ah * bl, ah * bh]
            return builtins.min(ps), builtins.max(ps)
        return self._ar(o, lambda a, b: a * b, fi)

    __rmul__ = __mul__

    def __neg__(self):
        return SymInt(it=-self.toint(), lo=-self.hi, hi=-self.lo)

    def __pos__(self):
        return self

    def __abs__(self):
        if self.lo >= 0:
            return self
        t = self.toint()
        return SymInt(it=z3.If(t >= 0, t, -t), lo=0, hi=builtins.max(builtins.abs(self.lo), builtins.abs(self.hi)))

    def __truediv__(self, o):
        return SymReal.of(self) / o

    def __rtruediv__(self, o):
        return SymReal.of(o) / SymReal.of(self)

    def __floordiv__(self, o):
        if isinstance(o, int) and not isinstance(o, bool) and o > 0:
            if (o & (o - 1)) == 0 and self.bits is not None:
                return self >> (o.bit_length() - 1)
            return SymInt(it=self.toint() / o, lo=self.lo // o, hi=self.hi // o)  # z3 Int div = floor for positive divisor
        raise Unsupported("SymInt // %r" % (o,))

    def __mod__(self, o):
        if isinstance(o, int) and not isinstance(o, bool) and o > 0:
            if (o & (o - 1)) == 0 and self.bits is not None:
                k = o.bit_length() - 1
                return SymInt(bits=self.bits[-k:] if k else [ZERO1])
            return SymInt(it=self.toint() % o, lo=0, hi=o - 1)  # z3 mod is non-negative for positive divisor = Python
        raise Unsupported("SymInt %% %r" % (o,))

    def __pow__(self, o):
        if o == 2:
            return self * self
        raise Unsupported("SymInt ** %r" % (o,))

    # ---- bit operations (GF(2) normal form)
    def _bitop(self, o, f):
        o = SymInt.lift(o)
        a, b = self.getbits(), o.getbits()
        n = max(len(a), len(b))
        a = [ZERO1] * (n - len(a)) + a
        b = [ZERO1] * (n - len(b)) + b
        return SymInt(bits=[f(x, y) for x, y in zip(a, b)])

    def __and__(self, o):
        return self._bitop(o, band)

    __rand__ = __and__

    def __or__(self, o):
        return self._bitop(o, bor)

    __ror__ = __or__

    def __xor__(self, o):
        return self._bitop(o, bxor)

    __rxor__ = __xor__

    def __lshift__(self, k):
        if not isinstance(k, int):
            raise Unsupported("symbolic shift amount")
        return SymInt(bits=self.getbits() + [ZERO1] * k)

    def __rshift__(self, k):
        if not isinstance(k, int):
            raise Unsupported("symbolic shift amount")
        b = self.getbits()
        return SymInt(bits=b[:len(b) - k] if k < len(b) else [ZERO1])

    def __rlshift__(self, o):
        raise Unsupported("shift by a symbolic amount")

    __rrshift__ = __rlshift__

    # ---- comparisons
    def _eqbits(self, o):
        """bitwise equality term if both sides have bit lists (cheap, no arithmetic)"""
        if self.bits is None:
            return None
        if isinstance(o, bool):
            o = int(o)
        if isinstance(o, int):
            try:
                c = self._eqc
            except AttributeError:
                c = self._eqc = {}
            r = c.get(o)
            if r is None:
                r = c[o] = self._eqbits1(o)
            return r
        return self._eqbits1(o)

    def _eqbits1(self, o):
        if isinstance(o, int):
            if o < 0 or o.bit_length() > len(self.bits):
                return z3.BoolVal(False)
            ob = [ONE1 if c == "1" else ZERO1 for c in builtins.bin(o)[2:].zfill(len(self.bits))]
        elif isinstance(o, SymInt) and o.bits is not None:
            ob = o.bits
        else:
            return None
        a = self.bits
        n = max(len(a), len(ob))
        a = [ZERO1] * (n - len(a)) + a
        ob = [ZERO1] * (n - len(ob)) + ob
        cs = []
        for x, y in zip(a, ob):
            d = bxor(x, y)
            if not d.atoms:
                if d.c:
                    return z3.BoolVal(False)
                continue
            cs.append(z3.Not(d.true()))
        return z3.And(cs) if cs else z3.BoolVal(True)

    def _cmp(self, o, f):
        if isinstance(o, (float, SymReal)):
            return f(SymReal.of(self), o)
        if o is None:
            raise TypeError("'<' not supported between instances of 'int' and 'NoneType'")
        o = SymInt.lift(o)
        return SymBool(f(self.toint(), o.toint()))

    def __eq__(self, o):
        if o is None or isinstance(o, (str, SymStr, tuple, list, dict)):
            return False
        if isinstance(o, (float, SymReal)):
            return SymReal.of(self) == o
        e = self._eqbits(o)
        if e is not None:
            bit = None
            if isinstance(o, int) and self.bits is not None and len(self.bits) == 1 and o in (0, 1):
                bit = self.bits[0] if o == 1 else bnot(self.bits[0])
            return SymBool(e, bit)
        return self._cmp(o, lambda a, b: a == b)

    def __ne__(self, o):
        r = self.__eq__(o)
        if isinstance(r, bool):
            return not r
        return SymBool(z3.Not(r.t), bnot(r.bit) if r.bit is not None else None)

    def __lt__(self, o):
        return self._cmp(o, lambda a, b: a < b)

    def __le__(self, o):
        return self._cmp(o, lambda a, b: a <= b)

    def __gt__(self, o):
        if isinstance(o, int) and not isinstance(o, bool) and o == 0 and self.bits is not None:
            nz = [b for b in self.bits if b.atoms or b.c]
            return SymBool(self.nonzero(), nz[0] if len(nz) == 1 else None)
        return self._cmp(o, lambda a, b: a > b)

    def __ge__(self, o):
        return self._cmp(o, lambda a, b: a >= b)

    def __bool__(self):
        return bool(SymBool(self.nonzero()))

    def __hash__(self):
        # a symbolic integer used as a dictionary / set / memo key: every symbolic key hashes alike, so container
        # operations fall back on == (symbolic, forks); loads, .get and membership tests on containers go through
        # symx_getitem / symx_get / symx_in, which compare against every key (concrete keys included)
        if self.isconst():
            return builtins.hash(self.constval())
        return 0x5EED

    def __index__(self):
        return concretize(self)

    def __int__(self):
        raise Unsupported("C-level int() of SymInt")

    def __float__(self):
        raise Unsupported("C-level float() of SymInt")

    def __repr__(self):
        return "SymInt[%s..%s]" % (self.lo, self.hi)


def bits_to_int(bits):
    """MSB-first list of Bit -> z3 Int; whole Int-typed fields are recognised and used directly."""
    n = len(bits)
    terms = []
    const = 0
    k = 0
    while k < n:
        b = bits[k]
        w = 1 << (n - 1 - k)
        if not b.atoms:
            const += b.c * w
            k += 1
            continue
        if not b.c and len(b.atoms) == 1:
            (a,) = b.atoms
            tag = ATOMTAG.get(a)
            if tag is not None and tag[0] in INTFIELDS:
                fkey, pos = tag
                term, width = INTFIELDS[fkey]
                if pos == width - 1 and k + width <= n:
                    ok = True
                    for d in range(width):
                        bb = bits[k + d]
                        if bb.c or len(bb.atoms) != 1 or ATOMTAG.get(next(iter(bb.atoms))) != (fkey, width - 1 - d):
                            ok = False
                            break
                    if ok:
                        terms.append(term * (1 << (n - k - width)) if n - k - width else term)
                        k += width
                        continue
        terms.append(z3.If(b.true(), _ival(w), _ival(0)))
        k += 1
    if not terms:
        return _ival(const)
    t = z3.Sum(terms) if len(terms) > 1 else terms[0]
    return t + const if const else t


def _bound(c, t, lo, hi, upper):
    """tightest feasible bound of Int term t under the path condition (binary search, deterministic)"""
    if upper:
        while lo < hi:
            mid = (lo + hi + 1) // 2
            if c.feasible(t >= mid):
                lo = mid
            else:
                hi = mid - 1
        return lo
    while lo < hi:
        mid = (lo + hi) // 2
        if c.feasible(t <= mid):
            hi = mid
        else:
            lo = mid + 1
    return lo


def concretize(x, limit=256):
    """Fork over the feasible values of a SymInt (small range under the path condition); returns a Python int."""
    if not isinstance(x, SymInt):
        return x
    if x.isconst():
        return x.constval()
    c = Ctx.cur
    if c is None:
        raise Unsupported("concretize outside exploration")
    lo, hi = x.lo, x.hi
    if hi - lo + 1 > limit:
        t = x.toint()
        lo = _bound(c, t, lo, hi, False)
        hi = _bound(c, t, lo, hi, True)
        if hi - lo + 1 > limit:
            raise Unsupported("concretize: feasible range %d..%d too large" % (lo, hi))
    for v in range(lo, hi + 1):
        if bool(x == v):
            return v
    raise PathAbort("concretize: no value feasible")


# --------------------------------------------------------------------------- SymReal

class RFloat(float):
    """A float that remembers the exact rational it rounds (quotients of ints such as 360 / 59): the real back end
    computes with the exact value, concrete code sees an ordinary float."""
    __slots__ = ("frac",)

    def __new__(cls, frac):
        self = float.__new__(cls, frac.numerator / frac.denominator)
        self.frac = frac
        return self

    @staticmethod
    def _f(o):
        if isinstance(o, RFloat):
            return o.frac
        if isinstance(o, int) and not isinstance(o, bool):
            return Fraction(o)
        return None

    def _op(self, o, f, fl):
        g = RFloat._f(o)
        if g is None:
            if isinstance(o, (float, int)):
                return fl(float(self), o)
            return NotImplemented
        return RFloat(f(self.frac, g))

    def __mul__(self, o):
        return self._op(o, lambda a, b: a * b, lambda a, b: a * b)

    __rmul__ = __mul__

    def __add__(self, o):
        return self._op(o, lambda a, b: a + b, lambda a, b: a + b)

    __radd__ = __add__

    def __sub__(self, o):
        return self._op(o, lambda a, b: a - b, lambda a, b: a - b)

    def __rsub__(self, o):
        return self._op(o, lambda a, b: b - a, lambda a, b: b - a)

    def __truediv__(self, o):
        if isinstance(o, (int, float)) and o == 0:
            raise ZeroDivisionError("float division by zero")
        return self._op(o, lambda a, b: a / b, lambda a, b: a / b)

    def __rtruediv__(self, o):
        if float(self) == 0:
            raise ZeroDivisionError("float division by zero")
        return self._op(o, lambda a, b: b / a, lambda a, b: b / a)

    def __neg__(self):
        return RFloat(-self.frac)


def symx_div(a, b):
    """a / b : int / int keeps the exact rational alongside the float"""
    if type(a) is int and type(b) is int:
        if b == 0:
            raise ZeroDivisionError("division by zero")
        return RFloat(Fraction(a, b))
    if is_sym(b) and hasattr(a, "item") and not is_sym(a):
        a = a.item()          # numpy scalar / proxy: keep numpy from treating the proxy as an array
    elif is_sym(a) and hasattr(b, "item") and not is_sym(b):
        b = b.item()
    return a / b


def frac_of(o):
    if isinstance(o, RFloat):
        return o.frac
    if isinstance(o, bool):
        return Fraction(int(o))
    if isinstance(o, int):
        return Fraction(o)
    if isinstance(o, float):
        if o != o or o in (float("inf"), float("-inf")):
            raise Unsupported("non-finite float constant")
        return Fraction(repr(o))
    if isinstance(o, Fraction):
        return o
    raise Unsupported("frac_of(%s)" % type(o).__name__)


def rval(o):
    f = frac_of(o)
    return z3.RealVal("%d/%d" % (f.numerator, f.denominator))


def _isnan(o):
    return isinstance(o, float) and o != o


class SymReal:
    __slots__ = ("t",)

    def __init__(self, t):
        self.t = t

    @staticmethod
    def of(o):
        if isinstance(o, SymReal):
            return o
        if isinstance(o, SymInt):
            return SymReal(z3.ToReal(o.toint()))
        if isinstance(o, SymBool):
            return SymReal.of(SymInt.lift(o))
        if isinstance(o, (int, float, Fraction)):
            return SymReal(rval(o))
        try:
            import numpy as np
            if isinstance(o, (np.floating, np.integer)):
                return SymReal(rval(o.item()))
        except ImportError:
            pass
        raise Unsupported("SymReal.of(%s)" % type(o).__name__)

    def __add__(self, o):
        if _isnan(o):
            return o
        return SymReal(self.t + SymReal.of(o).t)

    __radd__ = __add__

    def __sub__(self, o):
        if _isnan(o):
            return o
        return SymReal(self.t - SymReal.of(o).t)

    def __rsub__(self, o):
        if _isnan(o):
            return o
        return SymReal(SymReal.of(o).t - self.t)

    def __mul__(self, o):
        if _isnan(o):
            return o
        return SymReal(self.t * SymReal.of(o).t)

    __rmul__ = __mul__

    def __truediv__(self, o):
        if isinstance(o, (int, float, Fraction)) and not isinstance(o, bool):
            if o == 0:
                raise ZeroDivisionError("float division by zero")
            return SymReal(self.t / rval(o))
        o = SymReal.of(o)
        if bool(SymBool(o.t == 0)):
            raise ZeroDivisionError("float division by zero")
        return SymReal(self.t / o.t)

    def __rtruediv__(self, o):
        return SymReal.of(o) / self

    def __mod__(self, o):
        if isinstance(o, (int, float)) and not isinstance(o, bool) and o > 0:
            c = rval(o)
            _note_floor(self.t / c)
            return SymReal(self.t - c * z3.ToReal(z3.ToInt(self.t / c)))
        raise Unsupported("SymReal %% %r" % (o,))

    def __pow__(self, o):
        if o == 2:
            return self * self
        raise Unsupported("SymReal ** %r" % (o,))

    def __neg__(self):
        return SymReal(-self.t)

    def __pos__(self):
        return self

    def __abs__(self):
        return SymReal(z3.If(self.t >= 0, self.t, -self.t))

    def _c(self, o, f):
        if o is None:
            raise TypeError("comparison between float and NoneType")
        ot = SymReal.of(o).t
        return SymBool(f(self.t, ot), margin=self.t - ot)

    def __lt__(self, o):
        return self._c(o, lambda a, b: a < b)

    def __le__(self, o):
        return self._c(o, lambda a, b: a <= b)

    def __gt__(self, o):
        return self._c(o, lambda a, b: a > b)

    def __ge__(self, o):
        return self._c(o, lambda a, b: a >= b)

    def __eq__(self, o):
        if o is None or isinstance(o, (str, SymStr, tuple, list)):
            return False
        return self._c(o, lambda a, b: a == b)

    def __ne__(self, o):
        if o is None or isinstance(o, (str, SymStr, tuple, list)):
            return True
        return self._c(o, lambda a, b: a != b)

    __hash__ = None

    def __bool__(self):
        return bool(SymBool(self.t != 0))

    def __float__(self):
        raise Unsupported("C-level float() of SymReal")

    def __int__(self):
        raise Unsupported("C-level int() of SymReal")

    def __repr__(self):
        return "SymReal(%s)" % str(self.t)[:60]


def _note_floor(t):
    c = Ctx.cur
    if c is not None:
        c.floors.append(t)


def real_trunc(r):
    """int(float) semantics: truncate toward zero -> SymInt"""
    t = r.t
    _note_floor(t)
    it = z3.If(t >= 0, z3.ToInt(t), -z3.ToInt(-t))
    return SymInt(it=it, lo=-(1 << 62), hi=1 << 62)


def real_floor(r):
    _note_floor(r.t)
    return SymInt(it=z3.ToInt(r.t), lo=-(1 << 62), hi=1 << 62)


# --------------------------------------------------------------------------- chars / SymStr

class BitChar:
    """'0' or '1'"""
    __slots__ = ("b",)

    def __init__(self, b):
        self.b = b

    def is_char(self, ch):
        if ch == "1":
            return self.b.true()
        if ch == "0":
            return z3.Not(self.b.true())
        return z3.BoolVal(False)

    def alphabet(self):
        return "01"


class HexChar:
    """hex digit: 4 Bits (MSB first) and a letter case (z3 Bool 'upper')"""
    __slots__ = ("nib", "upper")

    def __init__(self, nib, upper=True):
        self.nib = nib
        self.upper = z3.BoolVal(upper) if isinstance(upper, bool) else upper

    def val(self):
        return SymInt(bits=self.nib)

    def is_char(self, ch):
        try:
            v = builtins.int(ch, 16)
        except ValueError:
            return z3.BoolVal(False)
        e = SymInt(bits=self.nib)._eqbits(v)
        if ch.isalpha():
            e = z3.And(e, self.upper if ch.isupper() else z3.Not(self.upper))
        return e

    def alphabet(self):
        return "0123456789ABCDEFabcdef"


class TabChar:
    """table[idx] with a symbolic index"""
    __slots__ = ("table", "idx")

    def __init__(self, table, idx):
        self.table = table
        self.idx = idx  # SymInt

    def is_char(self, ch):
        ks = [k for k, c in enumerate(self.table) if c == ch and self.idx.lo <= k <= self.idx.hi]
        if not ks:
            return z3.BoolVal(False)
        return z3.Or([tobool(self.idx == k) for k in ks])

    def alphabet(self):
        return "".join(sorted(set(self.table)))


def mkchar(c):
    """normalise a symbolic char to a concrete one when possible"""
    if isinstance(c, str):
        return c
    if isinstance(c, BitChar) and not c.b.atoms:
        return "1" if c.b.c else "0"
    if isinstance(c, HexChar) and all(not b.atoms for b in c.nib):
        v = builtins.int("".join(str(b.c) for b in c.nib), 2)
        if v < 10:
            return "%X" % v
        if z3.is_true(c.upper):
            return "%X" % v
        if z3.is_false(c.upper):
            return "%x" % v
    if isinstance(c, TabChar) and c.idx.isconst():
        return c.table[c.idx.constval()]
    return c


def char_eq(a, b):
    """z3 Bool: chars equal"""
    if isinstance(a, str) and isinstance(b, str):
        return z3.BoolVal(a == b)
    if isinstance(a, str):
        a, b = b, a
    if isinstance(b, str):
        return a.is_char(b)
    if isinstance(a, BitChar) and isinstance(b, BitChar):
        return z3.Not(bxor(a.b, b.b).true())
    if isinstance(a, HexChar) and isinstance(b, HexChar):
        cs = []
        for x, y in zip(a.nib, b.nib):
            d = bxor(x, y)
            if not d.atoms:
                if d.c:
                    return z3.BoolVal(False)
                continue
            cs.append(z3.Not(d.true()))
        if not a.upper.eq(b.upper):
            # letters (value >= 10) must also agree in case
            letter = z3.And(a.nib[0].true(), z3.Or(a.nib[1].true(), a.nib[2].true()))
            cs.append(z3.Or(z3.Not(letter), a.upper == b.upper))
        return z3.And(cs) if cs else z3.BoolVal(True)
    alpha = set(a.alphabet()) & set(b.alphabet())
    return z3.Or([z3.And(a.is_char(ch), b.is_char(ch)) for ch in sorted(alpha)]) if alpha else z3.BoolVal(False)


class SymStr:
    def __init__(self, chars):
        self.chars = list(chars)

    def __len__(self):
        return len(self.chars)

    def __getitem__(self, i):
        if isinstance(i, slice):
            return mkstr(self.chars[i])
        if isinstance(i, SymInt):
            i = concretize(i)
        return mkstr([self.chars[i]])

    def __add__(self, o):
        if not isinstance(o, (str, SymStr)):
            return NotImplemented
        return mkstr(self.chars + chars_of(o))

    def __radd__(self, o):
        if not isinstance(o, (str, SymStr)):
            return NotImplemented
        return mkstr(chars_of(o) + self.chars)

    def __mul__(self, k):
        return mkstr(self.chars * k)

    def __iter__(self):
        return (mkstr([c]) for c in self.chars)

    def eq_term(self, o):
        if not isinstance(o, (str, SymStr)):
            return z3.BoolVal(False)
        oc = chars_of(o)
        if len(oc) != len(self.chars):
            return z3.BoolVal(False)
        return z3.And([char_eq(a, b) for a, b in zip(self.chars, oc)])

    def __eq__(self, o):
        if not isinstance(o, (str, SymStr)):
            return False
        if len(chars_of(o)) != len(self.chars):
            return False
        return SymBool(self.eq_term(o))

    def __ne__(self, o):
        r = self.__eq__(o)
        return (not r) if isinstance(r, bool) else ~r

    def __contains__(self, sub):
        sc = chars_of(sub)
        n, m = len(self.chars), len(sc)
        if m == 0:
            return True
        alts = []
        for k in range(n - m + 1):
            alts.append(z3.And([char_eq(a, b) for a, b in zip(self.chars[k:k + m], sc)]))
        return bool(SymBool(z3.Or(alts))) if alts else False

    def __hash__(self):
        # a symbolic string used as a dictionary / set key: fork over its (few) concrete values; the path condition
        # then fixes the string, so later equality tests against it are decided
        n = 1
        for c in self.chars:
            if not isinstance(c, str):
                n *= len(c.alphabet())
                if isinstance(c, HexChar) and all(not b.atoms for b in c.nib):
                    n //= len(c.alphabet()) // 2
        if n > 64:
            # too many values to fork over: every such key gets the same hash, so dictionary operations fall back to
            # == (which is symbolic and forks); loads / membership tests go through symx_getitem / symx_in, which
            # compare against every key and therefore also find concrete keys that may be equal
            return 0x5EED
        return builtins.hash(concretize_str(self))

    def __bool__(self):
        return len(self.chars) > 0

    def zfill(self, n):
        if n <= len(self.chars):
            return self
        return mkstr(["0"] * (n - len(self.chars)) + self.chars)

    def ljust(self, n, fill=" "):
        if n <= len(self.chars):
            return self
        return mkstr(self.chars + [fill] * (n - len(self.chars)))

    def rjust(self, n, fill=" "):
        if n <= len(self.chars):
            return self
        return mkstr([fill] * (n - len(self.chars)) + self.chars)

    def lower(self):
        out = []
        for c in self.chars:
            if isinstance(c, str):
                out.append(c.lower())
            elif isinstance(c, HexChar):
                out.append(HexChar(c.nib, False))
            elif isinstance(c, BitChar):
                out.append(c)
            else:
                raise Unsupported("lower() of table char")
        return mkstr(out)

    def replace(self, old, new):
        if len(old) != 1:
            raise Unsupported("SymStr.replace with multi-char pattern")
        out = []
        for c in self.chars:
            if isinstance(c, str):
                out += list(new) if c == old else [c]
            elif bool(SymBool(c.is_char(old))):
                out += list(new)
            else:
                out.append(c)
        return mkstr(out)

    def upper(self):
        out = []
        for c in self.chars:
            if isinstance(c, str):
                out.append(c.upper())
            elif isinstance(c, HexChar):
                out.append(HexChar(c.nib, True))
            elif isinstance(c, BitChar):
                out.append(c)
            else:
                raise Unsupported("upper() of table char")
        return mkstr(out)

    def encode(self, *a):
        from . import cmodel
        return cmodel.str_encode(self)

    def __str__(self):
        raise Unsupported("C-level str() of SymStr")

    def __repr__(self):
        return "SymStr(" + "".join(c if isinstance(c, str) else "?" for c in self.chars) + ")"


def concretize_str(s):
    """fork over the feasible concrete values of a SymStr; returns a Python str"""
    out = []
    for c in s.chars:
        if isinstance(c, str):
            out.append(c)
            continue
        for ch in c.alphabet():
            t = z3.simplify(c.is_char(ch))
            if z3.is_false(t):
                continue
            if z3.is_true(t) or bool(SymBool(t)):
                out.append(ch)
                break
        else:
            raise PathAbort("no character value feasible")
    return "".join(out)


def chars_of(o):
    if isinstance(o, SymStr):
        return o.chars
    if isinstance(o, str):
        return list(o)
    raise Unsupported("chars_of(%s)" % type(o).__name__)


def mkstr(chars):
    chars = [mkchar(c) for c in chars]
    if all(isinstance(c, str) for c in chars):
        return "".join(chars)
    return SymStr(chars)


class OpaqueStr:
    """A formatted string whose content is not modelled (error messages, descriptions)."""

    def __init__(self, what):
        self.what = what

    def __repr__(self):
        return "OpaqueStr(%r)" % (self.what,)

    def __hash__(self):
        raise Unsupported("hash of OpaqueStr")

    def __eq__(self, o):
        raise Unsupported("comparison of an unmodelled formatted string")

    def __add__(self, o):
        return self

    __radd__ = __add__


# --------------------------------------------------------------------------- builtin models

class BinRepr:
    """bin(SymInt): only the idiom bin(x)[2:].zfill(n) with n >= width is modelled"""

    def __init__(self, si):
        self.si = si

    def __getitem__(self, i):
        if isinstance(i, slice) and i.start == 2 and i.stop is None and i.step is None:
            return BinDigits(self.si)
        raise Unsupported("bin(SymInt)[%r]" % (i,))


class BinDigits:
    def __init__(self, si):
        self.si = si

    def zfill(self, n):
        bits = self.si.getbits()
        if n >= len(bits):
            return mkstr(["0"] * (n - len(bits)) + [BitChar(b) for b in bits])
        raise Unsupported("bin(x)[2:].zfill(n) narrower than the value")


def s_int(x=0, base=10):
    if isinstance(x, SymStr):
        if base == 16:
            bits = []
            for c in x.chars:
                if isinstance(c, str):
                    v = builtins.int(c, 16)
                    bits += [ONE1 if ch == "1" else ZERO1 for ch in builtins.bin(v)[2:].zfill(4)]
                elif isinstance(c, HexChar):
                    bits += c.nib
                elif isinstance(c, BitChar):
                    bits += [ZERO1, ZERO1, ZERO1, c.b]
                else:
                    raise Unsupported("int(table char, 16)")
            return SymInt(bits=bits)
        if base == 2 or (base == 10 and len(x.chars) == 1):
            bits = []
            for c in x.chars:
                if isinstance(c, str):
                    if c not in "01":
                        if base == 10 and c.isdigit():
                            return builtins.int(c)
                        raise ValueError("invalid literal for int() with base %d" % base)
                    bits.append(ONE1 if c == "1" else ZERO1)
                elif isinstance(c, BitChar):
                    bits.append(c.b)
                elif isinstance(c, HexChar) and base == 10:
                    # int('7') fine, int('A') ValueError
                    v = c.val()
                    if bool(v > 9):
                        raise ValueError("invalid literal for int() with base 10")
                    return v
                else:
                    raise Unsupported("int(%s, %d)" % (type(c).__name__, base))
            return SymInt(bits=bits)
        raise Unsupported("int(SymStr, base=%s)" % base)
    if isinstance(x, SymInt):
        return x
    if isinstance(x, SymBool):
        return SymInt.lift(x)
    if isinstance(x, SymReal):
        return real_trunc(x)
    if type(x).__name__ == "SymFP":
        return x.to_int()
    if isinstance(x, str):
        return builtins.int(x, base)
    return builtins.int(x)


def s_float(x=0.0):
    if isinstance(x, SymReal) or type(x).__name__ == "SymFP":
        return x
    if isinstance(x, (SymInt, SymBool)):
        return SymReal.of(x)
    return builtins.float(x)


def s_bin(x):
    if isinstance(x, SymInt):
        return BinRepr(x)
    return builtins.bin(x)


def s_isinstance(o, t):
    ts = t if isinstance(t, tuple) else (t,)
    # the names int / float / str / set are rebound to their models inside the analysed modules
    back = {s_int: builtins.int, s_float: builtins.float, s_str: builtins.str, s_set: builtins.set}
    ts = tuple(back.get(x, x) if callable(x) and not isinstance(x, type) else x for x in ts)
    t = ts
    if isinstance(o, (SymStr, OpaqueStr)):
        return str in ts
    if isinstance(o, SymInt):
        return int in ts
    if isinstance(o, SymReal) or type(o).__name__ == "SymFP":
        return float in ts
    if isinstance(o, SymBool):
        return bool in ts or int in ts
    return builtins.isinstance(o, t)


def s_str(x=""):
    if isinstance(x, SymInt):
        if x.isconst():
            return builtins.str(x.constval())
        if x.lo >= 0 and x.hi <= 9:
            return SymStr([TabChar("0123456789", x)])
        return builtins.str(concretize(x))
    if isinstance(x, (SymStr, OpaqueStr)):
        return x
    if isinstance(x, (SymReal, SymBool)):
        return OpaqueStr("str(%s)" % type(x).__name__)
    return builtins.str(x)


_EXT = [0]


def _extremum(vals, is_max):
    """min / max of a sequence containing symbolic reals as ONE fresh value constrained to be an element that bounds all
    others (no fork per comparison)"""
    c = Ctx.cur
    if c is None:
        raise Unsupported("min/max of symbolic values outside an exploration")
    _EXT[0] += 1
    m = z3.Real("__ext%d" % _EXT[0])
    ts, seen = [], set()
    for v in vals:
        t = SymReal.of(v).t
        if t.get_id() not in seen:
            seen.add(t.get_id())
            ts.append(t)
    if len(ts) == 1:
        return SymReal(ts[0])
    c.assume(z3.And([(m >= t) if is_max else (m <= t) for t in ts]))
    c.assume(z3.Or([m == t for t in ts]))
    return SymReal(m)


def s_min(*a, **k):
    if len(a) == 2 and not k and any(is_sym(v) for v in a):
        return a[0] if (a[0] <= a[1]) else a[1]
    if len(a) == 1 and not k and isinstance(a[0], (list, tuple)) and any(isinstance(v, SymReal) for v in a[0]):
        return _extremum(a[0], False)
    return builtins.min(*a, **k)


def s_max(*a, **k):
    if len(a) == 2 and not k and any(is_sym(v) for v in a):
        return a[0] if (a[0] >= a[1]) else a[1]
    if len(a) == 1 and not k and isinstance(a[0], (list, tuple)) and any(isinstance(v, SymReal) for v in a[0]):
        return _extremum(a[0], True)
    return builtins.max(*a, **k)


def s_abs(x):
    if isinstance(x, (SymInt, SymReal)) or type(x).__name__ == "SymFP":
        return x.__abs__()
    return builtins.abs(x)


class SymCharSet:
    def __init__(self, s):
        self.s = s

    def issubset(self, other):
        other = sorted(builtins.set(other))
        conj = [z3.Or([char_eq(c, o) for o in other]) for c in self.s.chars]
        return SymBool(z3.And(conj))

    def _eq(self, o):
        if not isinstance(o, (builtins.set, builtins.frozenset)):
            raise Unsupported("set(SymStr) == %s" % type(o).__name__)
        other = sorted(o)
        sub = [z3.Or([char_eq(c, x) for x in other]) for c in self.s.chars]
        sup = [z3.Or([char_eq(c, x) for c in self.s.chars]) for x in other]
        return z3.And(sub + sup)

    def __eq__(self, o):
        return SymBool(self._eq(o))

    def __ne__(self, o):
        return SymBool(z3.Not(self._eq(o)))

    __hash__ = None


def s_set(x=()):
    if isinstance(x, SymStr):
        return SymCharSet(x)
    return builtins.set(x)


def s_len(x):
    return builtins.len(x)


def s_chr(x):
    if isinstance(x, SymInt):
        tc = getattr(x, "tagchar", None)
        if tc is not None:          # a byte built by a harness as the code of a symbolic character
            return SymStr([tc])
        return builtins.chr(concretize(x))
    return builtins.chr(x)


def s_format(x, spec=""):
    if isinstance(x, SymInt) and spec in ("X", "x"):
        return fmt_hex(x, 0, spec == "X", exact=True)
    m = _re.fullmatch(r"0(\d+)([Xx])", spec) if isinstance(spec, str) else None
    if isinstance(x, SymInt) and m:
        return fmt_hex(x, builtins.int(m.group(1)), m.group(2) == "X")
    if isinstance(x, (SymStr, OpaqueStr)) and spec == "":
        return x
    if is_sym(x):
        raise Unsupported("format(%s, %r)" % (type(x).__name__, spec))
    return builtins.format(x, spec)


def s_wrap(s, n):
    if isinstance(s, SymStr):
        return [s[i:i + n] for i in range(0, len(s), n)]
    import textwrap
    return textwrap.wrap(s, n)


SYMTYPES += [SymBool, SymInt, SymReal, SymStr]

def s_round(x, n=None):
    """round(): symbolic reals are rounded half-up at the n-th decimal (ties are a measure-zero set of inputs; Python
    rounds the binary64 value half-to-even, which differs from this only on such ties)"""
    if isinstance(x, SymReal):
        k = 10 ** (n or 0)
        t = x.t * k + rval(Fraction(1, 2))
        _note_floor(t)
        it = z3.ToInt(t)
        if n is None:
            return SymInt(it=it, lo=-(1 << 62), hi=1 << 62)
        return SymReal(z3.ToReal(it) / k)
    if isinstance(x, SymInt):
        if n is None or n >= 0:
            return x
        raise Unsupported("round(SymInt, negative digits)")
    return builtins.round(x) if n is None else builtins.round(x, n)


PATCH = dict(int=s_int, round=s_round, float=s_float, bin=s_bin, isinstance=s_isinstance, min=s_min, max=s_max, abs=s_abs,
             set=s_set, str=s_str, chr=s_chr, format=s_format)


# --------------------------------------------------------------------------- formatting helpers (used by the rewrite)

def fmt_hex(a, width, upper, exact=False):
    """render a non-negative SymInt as hex chars; 'width' = zero-padded minimum width.
    The number of digits must be decidable under the path condition."""
    c = Ctx.cur
    if a.bits is None:
        if a.lo < 0 and not (c is not None and c.must(a.toint() >= 0)):
            raise Unsupported("hex rendering of a possibly negative value")
        hi = a.hi if c is None else _bound(c, a.toint(), builtins.max(a.lo, 0), a.hi, True)
        w = builtins.max(hi.bit_length(), 1)
        bv = z3.Int2BV(a.toint(), w)
        bits = [tobit(z3.simplify(z3.Extract(i, i, bv))) for i in reversed(range(w))]
    else:
        bits = list(a.bits)
    n = (len(bits) + 3) // 4
    if n > builtins.max(width, 1):
        if width and c is not None and c.must(a.toint() < (1 << (4 * width))):
            bits = bits[len(bits) - 4 * width:]
            n = width
        else:
            # the number of digits depends on the value: fork on it (at most n ways)
            if c is None:
                raise Unsupported("hex rendering with value-dependent length")
            bits = [ZERO1] * (4 * n - len(bits)) + bits
            lo = builtins.max(width, 1)
            for k in range(lo, n):
                hi_zero = [b for b in bits[:4 * (n - k)]]
                cond = z3.And([z3.Not(b.true()) for b in hi_zero if b.atoms or b.c] +
                              ([z3.BoolVal(False)] if any((not b.atoms) and b.c for b in hi_zero) else []))
                if bool(SymBool(cond)):
                    bits = bits[4 * (n - k):]
                    n = k
                    break
            width = builtins.max(width, n)
    if n > 1 and n > width:
        raise Unsupported("hex rendering with value-dependent length")
    w = builtins.max(width, n)
    bits = [ZERO1] * (4 * w - len(bits)) + bits
    return mkstr([HexChar(bits[i:i + 4], upper) for i in range(0, len(bits), 4)])


_FMT_RE = _re.compile(r"%(0?)(\d*)(?:\.(\d+))?([Xxdsf])")


def symx_fmt(fmt, arg):
    """'fmt' % arg"""
    args = arg if isinstance(arg, tuple) else (arg,)
    if isinstance(fmt, str) and not any(is_sym(a) or isinstance(a, OpaqueStr) for a in args):
        return fmt % arg
    if not isinstance(fmt, str):
        return fmt % arg
    out = []
    pos = 0
    ai = 0
    for m in _FMT_RE.finditer(fmt):
        out += list(fmt[pos:m.start()])
        pos = m.end()
        a = args[ai]
        ai += 1
        zero, width, prec, conv = m.groups()
        if conv in "Xx" and isinstance(a, SymInt):
            if not zero and width:
                raise Unsupported("space padded hex")
            out += chars_of(fmt_hex(a, builtins.int(width or 0), conv == "X"))
        elif conv == "s" and isinstance(a, (str, SymStr)) and not width:
            out += chars_of(a)
        elif not (is_sym(a) or isinstance(a, OpaqueStr)):
            out += list(m.group(0) % (a,))
        else:
            return OpaqueStr(fmt)
    out += list(fmt[pos:])
    return mkstr(out)


def symx_fstring(*parts):
    """f-string: parts are str constants or (value, conversion, spec) triples"""
    out = []
    for p in parts:
        if isinstance(p, str):
            out.append(p)
            continue
        v, conv, spec = p
        if is_sym(v) or isinstance(v, OpaqueStr):
            if conv not in (-1, 115):
                return OpaqueStr("f-string")
            r = s_format(v, spec) if spec or not isinstance(v, (SymStr, OpaqueStr)) else v
            if isinstance(r, SymInt):
                r = s_str(r)
            out.append(r)
        else:
            if conv == 114:
                v = builtins.repr(v)
            elif conv == 115:
                v = builtins.str(v)
            elif conv == 97:
                v = builtins.ascii(v)
            out.append(builtins.format(v, spec))
    if any(isinstance(x, OpaqueStr) for x in out):
        return OpaqueStr("f-string")
    return symx_join("", out)


def symx_join(sep, it):
    items = list(it)
    if not isinstance(sep, str) or not any(isinstance(x, (SymStr, OpaqueStr)) for x in items):
        return sep.join(items)
    out = []
    for k, x in enumerate(items):
        if isinstance(x, OpaqueStr):
            return x
        if k:
            out += list(sep)
        out += chars_of(x)
    return mkstr(out)


def symx_strformat(fmt, *args, **kw):
    """'fmt'.format(*args)"""
    if not isinstance(fmt, str):
        return fmt.format(*args, **kw)
    if not any(is_sym(a) or isinstance(a, OpaqueStr) for a in list(args) + list(kw.values())):
        return fmt.format(*args, **kw)
    m = _re.fullmatch(r"\{0?:([Xx])\}", fmt)
    if m and len(args) == 1 and isinstance(args[0], SymInt):
        a = args[0]
        bits = a.getbits()
        # '{:X}' drops leading zeros: only modelled when the top nibble position is decidable
        return fmt_hex(a, 0, m.group(1) == "X", exact=True)
    return OpaqueStr(fmt)


MERGE_STR_DICT = False      # set by harnesses whose subject only prints the looked-up labels (tell)


def symx_getitem(obj, key):
    """obj[key] with symbolic key / mask"""
    if isinstance(key, SymInt):
        if isinstance(obj, str):
            return SymStr([TabChar(obj, key)]) if not key.isconst() else obj[key.constval()]
        if isinstance(obj, dict):
            if MERGE_STR_DICT and len(obj) >= 2 and all(isinstance(v, str) for v in obj.values()) \
                    and all(isinstance(k, int) and not isinstance(k, bool) for k in obj):
                # label tables of a pretty-printer: one fork (key present / KeyError) instead of one per key
                present = z3.Or([tobool(key == k) for k in obj])
                if bool(SymBool(present)):
                    return OpaqueStr("label")
                raise KeyError(key)
            for k in list(obj):
                if isinstance(k, (int, SymInt)):
                    r = key == k
                    if r is True or (not isinstance(r, bool) and bool(r)):
                        return _dict_value_by_identity(obj, k)
            raise KeyError(key)
        if isinstance(obj, (list, tuple)):
            n = len(obj)
            if bool(key < -n) or bool(key >= n):
                raise IndexError("list index out of range")
            return obj[concretize(key)]
        if isinstance(obj, SymStr):
            return obj[key]
        raise Unsupported("subscript of %s with SymInt" % type(obj).__name__)
    if isinstance(key, SymBool):
        return obj[bool(key)]
    if isinstance(obj, dict) and (isinstance(key, SymStr) or
                                  (isinstance(key, str) and any(isinstance(k, SymStr) for k in obj))):
        for k in list(obj):
            if isinstance(k, (str, SymStr)):
                r = key == k
                if r is True or (not isinstance(r, bool) and bool(r)):
                    return dict.__getitem__(obj, k) if isinstance(k, str) else _dict_value_by_identity(obj, k)
        raise KeyError(key)
    if isinstance(obj, dict) and isinstance(key, int) and not isinstance(key, bool) and any(isinstance(k, SymInt) for k in obj):
        for k in list(obj):
            if isinstance(k, (int, SymInt)):
                r = k == key
                if r is True or (not isinstance(r, bool) and bool(r)):
                    return _dict_value_by_identity(obj, k)
        raise KeyError(key)
    if isinstance(key, list) and any(isinstance(k, SymBool) for k in key):
        key = [bool(k) if isinstance(k, SymBool) else k for k in key]
    if isinstance(key, slice) and any(isinstance(v, SymInt) for v in (key.start, key.stop, key.step)):
        key = slice(*[concretize(v) if isinstance(v, SymInt) else v for v in (key.start, key.stop, key.step)])
    return obj[key]


def _dict_value_by_identity(d, key_obj):
    for k, v in d.items():
        if k is key_obj:
            return v
    raise KeyError(key_obj)


def symx_get(obj, *args):
    """obj.get(key[, default])"""
    if isinstance(obj, dict) and args and (is_sym(args[0]) or any(isinstance(k, SymInt) for k in obj)):
        try:
            return symx_getitem(obj, args[0])
        except KeyError:
            return args[1] if len(args) > 1 else None
    return obj.get(*args)


def symx_in(x, container):
    """x in container"""
    if isinstance(x, str) and isinstance(container, dict) and any(isinstance(k, SymStr) for k in container):
        for k in list(container):
            r = x == k if not isinstance(k, SymStr) else k == x
            if r is True or (not isinstance(r, bool) and bool(r)):
                return True
        return False
    if isinstance(container, (set, frozenset, dict)) and isinstance(x, int) and any(isinstance(k, SymInt) for k in container):
        for k in list(container):
            r = k == x
            if r is True or (not isinstance(r, bool) and bool(r)):
                return True
        return False
    if is_sym(x) and isinstance(container, (set, frozenset, dict)) or \
            (is_sym(x) and type(container).__name__ == "dict_keys"):
        for k in container:
            r = x == k
            if r is True or (not isinstance(r, bool) and bool(r)):
                return True
        return False
    return x in container


def symx_not(c):
    """`not c` without forcing a symbolic condition to a bool"""
    if isinstance(c, SymBool):
        return SymBool(z3.Not(c.t), bnot(c.bit) if c.bit is not None else None)
    if isinstance(c, SymInt):
        return SymBool(z3.Not(c.nonzero()))
    return not c


class SymBitArr:
    """a 1-D numpy integer array whose elements are 0/1 values (ints or one-bit SymInts): the operations used by
    py_common.crc_legacy (indexing, slicing, slice assignment, element-wise xor, array2string)"""

    def __init__(self, elems):
        self.e = list(elems)

    def __len__(self):
        return len(self.e)

    def __getitem__(self, i):
        if isinstance(i, slice):
            return SymBitArr(self.e[i])
        return self.e[i]

    def __setitem__(self, i, v):
        if isinstance(i, slice):
            vals = list(v.e) if isinstance(v, SymBitArr) else list(v)
            if len(self.e[i]) != len(vals):
                raise ValueError("could not broadcast input array from shape (%d,) into shape (%d,)" % (len(vals), len(self.e[i])))
            self.e[i] = vals
        else:
            self.e[i] = v

    def xor(self, o):
        ov = list(o.e) if isinstance(o, SymBitArr) else [builtins.int(x) for x in o]
        if len(ov) != len(self.e):
            raise ValueError("operands could not be broadcast together with shapes (%d,) (%d,)" % (len(self.e), len(ov)))
        return SymBitArr([a ^ b for a, b in zip(self.e, ov)])


def symx_issym(c):
    return isinstance(c, (SymBool, SymInt))


def symx_ite(c, a, b):
    """merge after if-conversion: a if c else b"""
    if a is b:
        return a
    if isinstance(a, SymBitArr) and isinstance(b, SymBitArr) and len(a) == len(b):
        return SymBitArr([symx_ite(c, x, y) for x, y in zip(a.e, b.e)])
    if isinstance(a, (int, SymInt)) and isinstance(b, (int, SymInt)) and not isinstance(a, bool) and not isinstance(b, bool):
        a = SymInt.lift(a)
        b = SymInt.lift(b)
        ct = tobool(c)
        if (a.bits is not None or a.lo >= 0) and (b.bits is not None or b.lo >= 0) and a.bits is not None and b.bits is not None:
            cb = getattr(c, "bit", None)
            if cb is None and isinstance(c, SymInt) and c.bits is not None:
                nz = [x for x in c.bits if x.atoms or x.c]
                if len(nz) == 1:
                    cb = nz[0]      # truthiness of a one-bit mask result is that bit
            if cb is None:
                cb = bool2bit(ct)
            A, B = a.bits, b.bits
            n = max(len(A), len(B))
            A = [ZERO1] * (n - len(A)) + A
            B = [ZERO1] * (n - len(B)) + B
            out = []
            for p, q in zip(A, B):
                d = bxor(p, q)
                if not d.atoms:
                    out.append(q if not d.c else bxor(q, cb))
                else:
                    out.append(bxor(q, band(cb, d)))
            return SymInt(bits=out)
        return SymInt(it=z3.If(ct, a.toint(), b.toint()), lo=builtins.min(a.lo, b.lo), hi=builtins.max(a.hi, b.hi))
    # not mergeable: fork (the body had no side effects besides these assignments)
    return a if bool(c) else b
