"""Load-time AST rewrites (applied to the in-memory copy of the real source only).

1. obj[key] loads, obj.get(k), x in c      -> helpers that fork over symbolic keys
1b. a / b                                  -> helper that keeps int / int as an exact rational next to the float
2. "fmt" % x, "sep".join(..), "..".format  -> modelled rendering helpers
3. bare `except:`                          -> `except Exception:` (engine control flow uses BaseException)
4. if-conversion of `if C: <assignments>`  in allow-listed functions (CRC-style loops): one path instead of 2^n
All rewrites are semantics-preserving for concrete values.
"""
import ast
import copy


def _name(n):
    return ast.Name(n, ast.Load())


class Rewrite(ast.NodeTransformer):
    def visit_Subscript(self, node):
        self.generic_visit(node)
        if isinstance(node.ctx, ast.Load):
            return ast.Call(_name("__symx_getitem__"), [node.value, node.slice], [])
        return node

    def visit_BinOp(self, node):
        self.generic_visit(node)
        if isinstance(node.op, ast.Mod) and isinstance(node.left, (ast.Constant, ast.JoinedStr)) and \
                (not isinstance(node.left, ast.Constant) or isinstance(node.left.value, str)):
            return ast.Call(_name("__symx_fmt__"), [node.left, node.right], [])
        if isinstance(node.op, ast.Div):
            return ast.Call(_name("__symx_div__"), [node.left, node.right], [])
        return node

    def visit_Call(self, node):
        self.generic_visit(node)
        f = node.func
        if isinstance(f, ast.Attribute) and not node.keywords:
            if f.attr == "join" and isinstance(f.value, ast.Constant) and isinstance(f.value.value, str) \
                    and len(node.args) == 1:
                return ast.Call(_name("__symx_join__"), [f.value, node.args[0]], [])
            if f.attr == "format" and isinstance(f.value, ast.Constant) and isinstance(f.value.value, str):
                return ast.Call(_name("__symx_strformat__"), [f.value] + node.args, [])
            if f.attr == "get" and 1 <= len(node.args) <= 2:
                return ast.Call(_name("__symx_get__"), [f.value] + node.args, [])
        return node

    def visit_JoinedStr(self, node):
        parts = []
        for v in node.values:
            if isinstance(v, ast.Constant):
                parts.append(v)
            elif isinstance(v, ast.FormattedValue):
                val = self.visit(v.value)
                spec = v.format_spec
                if spec is None:
                    spec_node = ast.Constant("")
                elif isinstance(spec, ast.JoinedStr) and all(isinstance(x, ast.Constant) for x in spec.values):
                    spec_node = ast.Constant("".join(x.value for x in spec.values))
                else:
                    return self.generic_visit(node)
                parts.append(ast.Tuple([val, ast.Constant(v.conversion), spec_node], ast.Load()))
            else:
                return self.generic_visit(node)
        return ast.Call(_name("__symx_fstring__"), parts, [])

    def visit_Compare(self, node):
        self.generic_visit(node)
        if len(node.ops) == 1 and isinstance(node.ops[0], (ast.In, ast.NotIn)):
            call = ast.Call(_name("__symx_in__"), [node.left, node.comparators[0]], [])
            if isinstance(node.ops[0], ast.NotIn):
                return ast.UnaryOp(ast.Not(), call)
            return call
        return node

    def visit_ExceptHandler(self, node):
        self.generic_visit(node)
        if node.type is None:
            node.type = _name("Exception")
        return node

    def visit_Delete(self, node):
        return node  # keep `del d[k]` untouched

    def visit_AugAssign(self, node):
        # target stays a real Subscript/Name; only the value is rewritten
        node.value = self.visit(node.value)
        if isinstance(node.target, ast.Subscript):
            node.target.value = self.visit(node.target.value)
            node.target.slice = self.visit(node.target.slice)
        return node


def _as_load(t):
    t = copy.deepcopy(t)
    for n in ast.walk(t):
        if hasattr(n, "ctx"):
            n.ctx = ast.Load()
    return t


def _as_store(t):
    t = copy.deepcopy(t)
    t.ctx = ast.Store()
    return t


PURE_CALLS = {"bitwise_xor"}      # numpy element-wise functions without side effects


def _has_call(e):
    for n in ast.walk(e):
        if isinstance(n, ast.Call):
            f = n.func
            if isinstance(f, ast.Attribute) and f.attr in PURE_CALLS:
                continue
            return True
    return False


class IfConv(ast.NodeTransformer):
    """`if C: <assignments only, no calls>` (no else) -> when C is symbolic: run the body, then merge each target
    as ite(C, new, old). Only inside allow-listed functions."""

    def __init__(self, allow):
        self.allow = allow
        self.stack = []
        self.count = 0

    def visit_FunctionDef(self, node):
        self.stack.append(node.name)
        self.generic_visit(node)
        self.stack.pop()
        return node

    def visit_For(self, node):
        # `if C: continue` followed only by assignments  ->  `if not C: <assignments>` (then if-converted below)
        if self.stack and self.stack[-1] in self.allow and len(node.body) >= 2 and isinstance(node.body[0], ast.If) \
                and not node.body[0].orelse and len(node.body[0].body) == 1 and isinstance(node.body[0].body[0], ast.Continue) \
                and all(isinstance(st, (ast.Assign, ast.AugAssign)) for st in node.body[1:]):
            test = ast.Call(_name("__symx_not__"), [node.body[0].test], [])
            node.body = [ast.If(test, node.body[1:], [])]
        self.generic_visit(node)
        return node

    def visit_If(self, node):
        self.generic_visit(node)
        if not self.stack or self.stack[-1] not in self.allow or node.orelse:
            return node
        targets = []
        for st in node.body:
            if isinstance(st, ast.Assign) and len(st.targets) == 1 and \
                    isinstance(st.targets[0], (ast.Name, ast.Subscript)) and not _has_call(st.value):
                targets.append(st.targets[0])
            elif isinstance(st, ast.AugAssign) and isinstance(st.target, (ast.Name, ast.Subscript)) \
                    and not _has_call(st.value):
                targets.append(st.target)
            else:
                return node
        self.count += 1
        uid = self.count
        cname = "__symx_c%d__" % uid
        pre = [ast.Assign([ast.Name(cname, ast.Store())], node.test)]
        saves, merges = [], []
        for k, t in enumerate(targets):
            on = "__symx_o%d_%d__" % (uid, k)
            saves.append(ast.Assign([ast.Name(on, ast.Store())], _as_load(t)))
            merges.append(ast.Assign([_as_store(t)], ast.Call(_name("__symx_ite__"),
                                                              [_name(cname), _as_load(t), _name(on)], [])))
        sym_branch = saves + copy.deepcopy(node.body) + merges
        new = ast.If(ast.Call(_name("__symx_issym__"), [_name(cname)], []), sym_branch,
                     [ast.If(_name(cname), node.body, [])])
        return pre + [new]


def transform(tree, ifconv_functions=()):
    if ifconv_functions:
        tree = IfConv(set(ifconv_functions)).visit(tree)
    tree = Rewrite().visit(tree)
    ast.fix_missing_locations(tree)
    return tree
