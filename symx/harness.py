"""Harness layer: frames from named fields, obligations, path validation, replay, known findings."""
import fnmatch
import hashlib
import json
import math
import os
import subprocess
import sys
import time
from fractions import Fraction

import z3

from . import core
from .core import (Bit, BitChar, HexChar, OpaqueStr, SymBool, SymInt, SymReal, SymStr, TabChar, Unsupported, atom,
                   mkstr, ONE1, ZERO1)

VERIF = os.path.dirname(os.path.dirname(os.path.abspath(__file__)))
REPLAY_PY = os.environ.get("SYMX_REPLAY_PYTHON", "/venv/bin/python")
QUERY_TIMEOUT_MS = int(os.environ.get("SYMX_QUERY_TIMEOUT_MS", "300000"))


class HarnessError(Exception):
    """inconclusive: solver unknown, non-reproducing counterexample, validation mismatch ... (exit 2)"""


# --------------------------------------------------------------------------- replay client

class Replay:
    _inst = None

    def __init__(self):
        env = dict(os.environ)
        env["SYMX_REPO_SRC"] = os.environ.get("SYMX_REPO_SRC", "/repo/src")
        env.pop("PYTHONPATH", None)
        self.p = subprocess.Popen([REPLAY_PY, "-u", os.path.join(VERIF, "symx", "replay_server.py")],
                                  stdin=subprocess.PIPE, stdout=subprocess.PIPE, stderr=subprocess.DEVNULL,
                                  text=True, env=env, cwd="/")
        hello = json.loads(self.p.stdout.readline())
        if not hello.get("ready") or hello.get("common") != "pyModeS.py_common":
            raise HarnessError("replay server did not come up on py_common: %r" % (hello,))
        self.calls = 0

    @classmethod
    def get(cls):
        if cls._inst is None or cls._inst.p.poll() is not None:
            cls._inst = Replay()
        return cls._inst

    def _rt(self, req):
        from .replay_server import dec
        self.p.stdin.write(json.dumps(req) + "\n")
        self.p.stdin.flush()
        line = self.p.stdout.readline()
        if not line:
            raise HarnessError("replay server died")
        self.calls += 1
        rep = json.loads(line)
        if "exc" in rep:
            return ("exc", rep["exc"][0], rep["exc"][1])
        return ("ret", dec(rep["ret"]))

    def call(self, fn, *args, **kwargs):
        from .replay_server import enc
        return self._rt({"fn": fn, "args": enc(list(args)), "kwargs": {k: enc(v) for k, v in kwargs.items()}})

    def driver(self, name, arg):
        from .replay_server import enc
        return self._rt({"driver": name, "arg": enc(arg)})


def real_call(fn, *args, **kwargs):
    return Replay.get().call(fn, *args, **kwargs)


def real_driver(name, arg):
    return Replay.get().driver(name, arg)


def fresh_replay():
    """drop the replay interpreter: the next real call starts a new one (no state from earlier replays)"""
    if Replay._inst is not None:
        try:
            Replay._inst.p.kill()
        except Exception:       # noqa
            pass
        Replay._inst = None


def fresh_driver(name, arg):
    """run a driver in a NEW replay interpreter (for call sequences: no state from earlier replays may be present)"""
    if Replay._inst is not None:
        try:
            Replay._inst.p.kill()
        except Exception:       # noqa
            pass
        Replay._inst = None
    return Replay.get().driver(name, arg)


# --------------------------------------------------------------------------- fields and frames

class Field:
    def __init__(self, name, width, kind="bv", value=None):
        self.name, self.width, self.kind, self.value = name, width, kind, value
        if value is not None:
            self.var = None
            self.bits = [ONE1 if (value >> (width - 1 - i)) & 1 else ZERO1 for i in range(width)]
        elif kind == "int":
            self.var = z3.Int(name)
            bv = z3.Int2BV(self.var, width)
            core.INTFIELDS[name] = (self.var, width)
            self.bits = [atom(z3.Extract(width - 1 - i, width - 1 - i, bv), tag=(name, width - 1 - i))
                         for i in range(width)]
        else:
            self.var = z3.BitVec(name, width)
            self.bits = [atom(z3.Extract(width - 1 - i, width - 1 - i, self.var)) for i in range(width)]

    def constraint(self):
        if self.kind == "int" and self.var is not None:
            return z3.And(self.var >= 0, self.var < (1 << self.width))
        return z3.BoolVal(True)

    def int(self):
        """z3 Int value of the field (same construction the engine uses: terms are shared)"""
        if self.value is not None:
            return z3.IntVal(self.value)
        if self.kind == "int":
            return self.var
        return core.bits_to_int(self.bits)

    def sym(self):
        return SymInt(bits=self.bits)

    def bit(self, i):
        """z3 BV1 term of bit i (0 = MSB)"""
        return self.bits[i].z3()

    def val(self, model):
        if self.value is not None:
            return self.value
        v = model.eval(self.var, model_completion=True)
        return v.as_long()


class _Derived:
    kind, var, value, name = "derived", None, None, "<derived>"

    def __init__(self, bits, fn):
        self.bits, self.width, self.fn = list(bits), len(bits), fn

    def val(self, model):
        v = 0
        for b in self.bits:
            v = (v << 1) | (1 if z3.is_true(ev_term_(model, b.true())) else 0)
        return v

    def constraint(self):
        return z3.BoolVal(True)


def ev_term_(model, t):
    return model.eval(t, model_completion=True)


class Frame:
    """A Mode S frame built from named fields, MSB first. spec items:
       ("name", width) symbolic bit-vector field; ("name", width, value) constant; ("name", width, "int") Int field"""

    def __init__(self, spec, prefix="", case="upper"):
        self.fields = {}
        self.order = []
        for it in spec:
            name, width = it[0], it[1]
            if len(it) == 3 and it[2] == "int":
                f = Field(prefix + name, width, "int")
            elif len(it) == 3:
                f = Field(prefix + name, width, value=it[2])
            else:
                f = Field(prefix + name, width)
            self.fields[name] = f
            self.order.append(f)
        self.nbits = sum(f.width for f in self.order)
        assert self.nbits % 4 == 0, self.nbits
        self.bits = [b for f in self.order for b in f.bits]
        self.case = case
        self.prefix = prefix
        n = self.nbits // 4
        if case == "upper":
            self.casev = [True] * n
        elif case == "lower":
            self.casev = [False] * n
        else:
            self.casev = [z3.Bool("%scase%d" % (prefix, i)) for i in range(n)]
        self.msg = mkstr([HexChar(self.bits[4 * i:4 * i + 4], self.casev[i]) for i in range(n)])

    @classmethod
    def custom(cls, parts, prefix="", case="upper"):
        """parts: list of Field objects or ("derived", [Bit...], fn(model)->int) for bits computed from other fields"""
        self = cls.__new__(cls)
        self.fields, self.order = {}, []
        for p in parts:
            if isinstance(p, Field):
                self.fields[p.name[len(prefix):] if prefix and p.name.startswith(prefix) else p.name] = p
                self.order.append(p)
            else:
                self.order.append(_Derived(p[1], p[2]))
        self.nbits = sum(f.width for f in self.order)
        assert self.nbits % 4 == 0, self.nbits
        self.bits = [b for f in self.order for b in f.bits]
        self.case, self.prefix = case, prefix
        n = self.nbits // 4
        if case == "upper":
            self.casev = [True] * n
        elif case == "lower":
            self.casev = [False] * n
        else:
            self.casev = [z3.Bool("%scase%d" % (prefix, i)) for i in range(n)]
        self.msg = mkstr([HexChar(self.bits[4 * i:4 * i + 4], self.casev[i]) for i in range(n)])
        return self

    def __getitem__(self, name):
        return self.fields[name]

    def constraints(self):
        return [f.constraint() for f in self.order if f.kind == "int" and f.var is not None]

    def vars(self):
        d = {f.name: f.var for f in self.order if f.var is not None}
        for i, c in enumerate(self.casev):
            if not isinstance(c, bool):
                d["%scase%d" % (self.prefix, i)] = c
        return d

    def concrete(self, model):
        v = 0
        for f in self.order:
            v = (v << f.width) | f.val(model)
        s = "%0*X" % (self.nbits // 4, v)
        out = []
        for ch, c in zip(s, self.casev):
            up = c if isinstance(c, bool) else z3.is_true(model.eval(c, model_completion=True))
            out.append(ch if up else ch.lower())
        return "".join(out)

    def bitstr(self, model):
        v = 0
        for f in self.order:
            v = (v << f.width) | f.val(model)
        return bin(v)[2:].zfill(self.nbits)


def symbits(name, n):
    """n fresh bits as a SymStr of '0'/'1' chars; returns (SymStr, z3 BitVec var, [Bit])"""
    x = z3.BitVec(name, n)
    bits = [atom(z3.Extract(n - 1 - i, n - 1 - i, x)) for i in range(n)]
    return mkstr([BitChar(b) for b in bits]), x, bits


# --------------------------------------------------------------------------- evaluating outcomes under a model

def ev_term(model, t):
    return model.eval(t, model_completion=True)


def frac_of_z3(v):
    if z3.is_int_value(v):
        return Fraction(v.as_long())
    if z3.is_rational_value(v):
        return Fraction(v.numerator_as_long(), v.denominator_as_long())
    if z3.is_algebraic_value(v):
        return Fraction(v.approx(30).numerator_as_long(), v.approx(30).denominator_as_long())
    raise HarnessError("cannot evaluate %s" % v)


def concretise(model, v):
    """symbolic outcome -> concrete Python value under the model"""
    if isinstance(v, SymInt):
        return ev_term(model, v.toint()).as_long()
    if isinstance(v, SymBool):
        return z3.is_true(ev_term(model, v.t))
    if isinstance(v, SymReal):
        return float(frac_of_z3(ev_term(model, v.t)))
    if isinstance(v, SymStr):
        out = []
        for c in v.chars:
            if isinstance(c, str):
                out.append(c)
                continue
            for ch in c.alphabet():
                if z3.is_true(ev_term(model, c.is_char(ch))):
                    out.append(ch)
                    break
            else:
                raise HarnessError("symbolic char has no value under the model")
        return "".join(out)
    if isinstance(v, OpaqueStr):
        return v
    if isinstance(v, tuple):
        return tuple(concretise(model, x) for x in v)
    if isinstance(v, list):
        return [concretise(model, x) for x in v]
    if isinstance(v, dict):
        return {k: concretise(model, x) for k, x in v.items()}
    try:
        import numpy as np
        if isinstance(v, np.generic):
            return v.item()
    except ImportError:
        pass
    return v


def same_value(a, b, rtol=1e-9, atol=1e-9):
    """predicted (from the encoding) vs observed (real code)"""
    if isinstance(a, OpaqueStr) or isinstance(b, OpaqueStr):
        return isinstance(a, (str, OpaqueStr)) and isinstance(b, (str, OpaqueStr))
    if isinstance(a, bool) or isinstance(b, bool):
        return a == b and (isinstance(a, bool) == isinstance(b, bool) or True)
    if isinstance(a, (int, float)) and isinstance(b, (int, float)):
        if isinstance(a, float) or isinstance(b, float):
            if math.isnan(a) or math.isnan(b):
                return math.isnan(a) and math.isnan(b)
            return abs(a - b) <= atol + rtol * max(abs(a), abs(b))
        return a == b
    if isinstance(a, (tuple, list)) and isinstance(b, (tuple, list)):
        return len(a) == len(b) and all(same_value(x, y, rtol, atol) for x, y in zip(a, b))
    if isinstance(a, dict) and isinstance(b, dict):
        return a.keys() == b.keys() and all(same_value(a[k], b[k], rtol, atol) for k in a)
    return a == b


def jsonable(v):
    if isinstance(v, OpaqueStr):
        return "<formatted text>"
    if isinstance(v, float):
        return v if math.isfinite(v) else repr(v)
    if isinstance(v, (tuple, list)):
        return [jsonable(x) for x in v]
    if isinstance(v, dict):
        return {str(k): jsonable(x) for k, x in v.items()}
    if isinstance(v, (bytes, bytearray)):
        return list(v)
    if isinstance(v, BaseException):
        return "%s: %s" % (type(v).__name__, v)
    if v is None or isinstance(v, (bool, int, str)):
        return v
    return repr(v)


# --------------------------------------------------------------------------- work item context

class Violation:
    def __init__(self, item, label, inputs, detail, finding=None, raw=None):
        self.item, self.label, self.inputs, self.detail, self.finding = item, label, inputs, detail, finding
        self.raw = raw

    def asdict(self):
        return {"item": self.item, "label": self.label, "inputs": jsonable(self.inputs), "detail": self.detail,
                "finding": self.finding, "raw": self.raw}


class Item:
    """Context of one work item inside a worker process."""
    _counter = 0

    def __init__(self, pid, name, params, tier, seed, findings):
        self.pid, self.name, self.params, self.tier, self.seed = pid, name, params, tier, seed
        # "<item>@after:F1+F2": the same work item in history mode (see decide): every decide() of the item first runs
        # the same call on an earlier frame that differs in the named fields (and in letter case)
        self.full, self.after, self.hist_frame, self.hist_fr0 = name, None, None, None
        if "@after:" in name:
            self.name, fields = name.split("@after:")
            self.after = [x for x in fields.split("+") if x]
        self.findings = [f for f in findings if f["property"] == pid and f.get("status") == "known"
                         and fnmatch.fnmatch(name, f.get("item", "*"))]
        self.assumptions = []
        self.inputs = {}
        self.obligations = 0
        self.discharged = 0
        self.paths = 0
        self.nontrivial = 0
        self.validated = 0
        self.samples = []
        self.violations = []
        self.known_hits = {}
        self.solver_s = 0.0
        self.queries = 0
        self.functions = set()
        self.notes = []
        self.cvc5_checked = 0
        self.pins = (params or {}).get("__pins__")
        self._t0 = time.time()
        Item._counter += 1
        self._uid = Item._counter
        core._BASE_DECIDED.clear()
        core._BASE_KEEP.clear()
        core._BASE_SOLVERS.clear()
        self.real_inputs = []      # z3 Real variables handed to the code as floats (made dyadic in samples)
        self.robust_eps = None     # Fraction: margin used when choosing validation samples / counterexamples
        self.boundary_paths = 0

    # ---- setup
    def declare(self, *things):
        """register frames / fields / z3 variables as the harness inputs"""
        for t in things:
            if isinstance(t, Frame):
                if self.hist_frame is None:
                    self.hist_frame = t
                self.inputs.update(t.vars())
                self.assumptions += t.constraints()
            elif isinstance(t, Field):
                if t.var is not None:
                    self.inputs[t.name] = t.var
                    self.assumptions.append(t.constraint())
            elif z3.is_expr(t):
                self.inputs[str(t)] = t
            else:
                raise TypeError(t)
        if self.pins:
            # replay mode: pin every declared input to the recorded counterexample value
            for k, v in self.inputs.items():
                if k in self.pins and k not in getattr(self, "_pinned", set()):
                    self.__dict__.setdefault("_pinned", set()).add(k)
                    pv = self.pins[k]
                    if z3.is_fp(v):
                        self.assumptions.append(v == z3.FPVal(float.fromhex(pv[3:]), v.sort()))
                    elif z3.is_bool(v):
                        self.assumptions.append(v == bool(pv))
                    elif z3.is_real(v):
                        self.assumptions.append(v == z3.RealVal(str(pv)))
                    else:
                        self.assumptions.append(v == int(pv))

    def assume(self, *conds):
        self.assumptions += list(conds)

    def encoded(self, *names):
        self.functions.update(names)

    # ---- exploring
    def explore(self, fn, maxpaths=20000, on_path=None):
        before = core.STATS.solver_s
        paths = core.explore(fn, base=self.assumptions, maxpaths=maxpaths, on_path=on_path,
                             base_key=(self._uid, len(self.assumptions)) if getattr(self, "share_base", False) else None)
        self.solver_s += core.STATS.solver_s - before
        self.paths += len(paths)
        self.nontrivial += sum(1 for p in paths if len(p.pc) > len(self.assumptions))
        return paths

    # ---- solving
    def _solve(self, conds, timeout_ms=None):
        s = z3.Solver()
        s.set("timeout", timeout_ms or QUERY_TIMEOUT_MS)
        s.set("random_seed", 1 + self.seed % 1000)
        for c in conds:
            s.add(c)
        t = time.time()
        r = s.check()
        dt = time.time() - t
        self.solver_s += dt
        self.queries += 1
        if r == z3.unknown:
            # one retry with a different seed / tactic-free solver
            s2 = z3.SolverFor("QF_AUFLIRA") if False else z3.Solver()
            s2.set("timeout", timeout_ms or QUERY_TIMEOUT_MS)
            s2.set("random_seed", 7919 + self.seed % 1000)
            for c in conds:
                s2.add(c)
            t = time.time()
            r = s2.check()
            self.solver_s += time.time() - t
            self.queries += 1
            s = s2
        return r, (s.model() if r == z3.sat else None), dt

    def model_inputs(self, model):
        out = {}
        for k, v in self.inputs.items():
            e = ev_term(model, v)
            if z3.is_bv_value(e) or z3.is_int_value(e):
                out[k] = e.as_long()
            elif z3.is_true(e) or z3.is_false(e):
                out[k] = z3.is_true(e)
            elif z3.is_fp(e):
                from . import fp as _fp
                out[k] = "fp:" + _fp.fp_value(model, v).hex()
            else:
                out[k] = str(frac_of_z3(e))
        return out

    def robust(self, path):
        """extra constraints that keep a sample away from every decision boundary of the real-arithmetic model
        (comparisons, floors) and make float inputs exactly representable, so that binary64 rounding cannot flip
        a decision when the sample is replayed on the real code"""
        if self.robust_eps is None:
            return None
        e = z3.RealVal("%d/%d" % (self.robust_eps.numerator, self.robust_eps.denominator))
        cs = []
        for d in (path.margins if path is not None else ()):
            cs.append(z3.Or(d >= e, d <= -e))
        for x in (path.floors if path is not None else ()):
            fr = x - z3.ToReal(z3.ToInt(x))
            cs.append(z3.And(fr >= e, fr <= 1 - e))
        for k, v in enumerate(self.real_inputs):
            cs.append(v == z3.ToReal(z3.Int("__dy%d" % k)) / (1 << 26))
        return cs

    def validate(self, path, call_real, concretize_inputs, cmp=None):
        """path validation: one model of the path condition is pushed through the real, unpatched code and must
        produce the outcome the encoding predicts."""
        from . import fp as _fp
        if _fp.mentions_uf(path.pc[len(self.assumptions):] if len(path.pc) >= len(self.assumptions) else path.pc):
            # the path condition depends on an uninterpreted (libm / aero) result: a model's interpretation of that
            # function is arbitrary, so no concrete twin exists to compare with
            self.uf_paths = getattr(self, "uf_paths", 0) + 1
            return None
        rb = self.robust(path)
        if rb is not None:
            r, m, _ = self._solve(path.pc + list(self.assumptions) + rb, timeout_ms=60000)
            if r != z3.sat:
                # feasible only on a decision boundary (measure zero) or too hard: the obligations still cover the
                # path, but no rounding-robust sample exists to compare with the real code
                self.boundary_paths += 1
                return None
        else:
            r, m, _ = self._solve(path.pc + [c for c in self.assumptions], timeout_ms=60000)
        if r != z3.sat:
            if r == z3.unsat:
                raise HarnessError("%s: explored path has an unsatisfiable condition" % self.name)
            self.notes.append("path validation skipped: solver unknown on a path condition")
            return None
        conc = concretize_inputs(m)
        real = call_real(conc)
        if path.kind == "exc":
            pred = ("exc", type(path.value).__name__)
            ok = real[0] == "exc" and real[1] == pred[1]
        else:
            pv = concretise(m, path.value)
            pred = ("ret", pv)
            ok = real[0] == "ret" and (cmp or same_value)(pv, real[1])
        if not ok:
            raise HarnessError("%s: path validation mismatch (encoding != real code): inputs=%r predicted=%r real=%r"
                               % (self.name, jsonable(conc), jsonable(pred), jsonable(real)))
        self.validated += 1
        if len(self.samples) < 3:
            self.samples.append({"item": self.name, "inputs": jsonable(conc), "outcome": jsonable(real[:2])})
        return m

    def _region_terms(self, label):
        out = []
        for f in self.findings:
            if not fnmatch.fnmatch(label, f.get("label", "*")):
                continue
            expr = f.get("region")
            if expr is None:
                t = z3.BoolVal(True)
            else:
                ns = {k: getattr(z3, k) for k in ("And", "Or", "Not", "If", "ULT", "ULE", "UGT", "UGE", "Extract",
                                                  "BV2Int", "BoolVal", "Implies")}
                ns.update({k.replace(".", "_"): v for k, v in self.inputs.items()})
                ns.update(getattr(self, "region_ns", {}))
                t = eval(expr, {"__builtins__": {}}, ns)
            out.append((f, t))
        return out

    def prove(self, label, pc, claim, replay=None, timeout_ms=None, path=None):
        """Obligation: assumptions AND pc IMPLIES claim. claim: z3 Bool or Python bool.
        replay(model) -> (reproduced: bool, inputs: dict, detail: str) is run on a counterexample."""
        self.obligations += 1
        if claim is True:
            self.discharged += 1
            return True
        if claim is False:
            claim = z3.BoolVal(False)
        base = list(self.assumptions) + list(pc) + [z3.Not(claim)]
        regions = self._region_terms(label)
        outside = [z3.Not(t) for _, t in regions]
        r, m, dt = self._solve(base + outside, timeout_ms)
        ok = True
        if r == z3.unknown:
            raise HarnessError("%s/%s: solver returned unknown (%.0fs)" % (self.name, label, dt))
        if r == z3.sat:
            ok = False
            self._counterexample(label, self._robust_model(base + outside, m, path), replay, None)
        for f, t in regions:
            r2, m2, dt2 = self._solve(base + [t], timeout_ms)
            if r2 == z3.unknown:
                raise HarnessError("%s/%s: solver returned unknown inside known-finding region" % (self.name, label))
            if r2 == z3.sat:
                try:
                    self._counterexample(label, self._robust_model(base + [t], m2, path), replay, f)
                except HarnessError as e:
                    # inside a known-finding region nothing is claimed; a witness that does not replay (a decision
                    # boundary hit exactly) just means this path does not demonstrate the finding
                    self.notes.append("known-finding region %s: a symbolic witness did not replay" % f["id"])
        if ok:
            self.discharged += 1
            if self.tier == "thorough" and getattr(self, "cross_check", False):
                self._cvc5_cross(label, base + outside)
        return ok

    def _cvc5_cross(self, label, conds):
        """thorough tier: an obligation z3 discharged (unsat) is exported as SMT-LIB2 and re-decided by cvc5; a 'sat'
        from cvc5 is a disagreement between the two solvers and makes the run inconclusive (exit 2)"""
        if getattr(self, "_cvc5_budget", 240.0) <= 0:
            return
        try:
            import cvc5
        except ImportError:
            return
        s = z3.Solver()
        for c in conds:
            s.add(c)
        txt = s.to_smt2()
        t0 = time.time()
        res = None
        try:
            slv = cvc5.Solver()
            slv.setOption("tlimit-per", "20000")
            slv.setLogic("ALL")
            prs = cvc5.InputParser(slv)
            prs.setStringInput(cvc5.InputLanguage.SMT_LIB_2_6, txt, "obligation")
            sm = prs.getSymbolManager()
            while True:
                cmd = prs.nextCommand()
                if cmd.isNull():
                    break
                out = str(cmd.invoke(slv, sm)).strip()
                if out in ("sat", "unsat", "unknown"):
                    res = out
        except Exception as e:      # noqa  (a construct cvc5's parser does not accept: not cross-checked)
            res = "error:" + type(e).__name__
        self._cvc5_budget = getattr(self, "_cvc5_budget", 240.0) - (time.time() - t0)
        if res == "unsat":
            self.cvc5_checked += 1
        elif res == "sat":
            raise HarnessError("%s/%s: z3 says unsat, cvc5 says sat on the exported obligation" % (self.name, label))
        else:
            self.__dict__.setdefault("_cvc5_other", []).append(res)

    def _robust_model(self, conds, model, path):
        """prefer a counterexample that survives binary64 rounding (see robust()); fall back to the raw model"""
        rb = self.robust(path)
        if rb is None:
            return model
        for scale in (1, 1000):
            if scale != 1:
                eps = self.robust_eps
                self.robust_eps = eps / scale
                rb = self.robust(path)
                self.robust_eps = eps
            r, m, _ = self._solve(list(conds) + rb, timeout_ms=60000)
            if r == z3.sat:
                return m
        return model

    def _counterexample(self, label, model, replay, finding):
        if replay is None:
            raise HarnessError("%s/%s: counterexample without a replay procedure: %r"
                               % (self.name, label, self.model_inputs(model)))
        rr = replay(model)
        reproduced, inputs, detail = rr[:3]
        real = rr[3] if len(rr) > 3 else None
        if not reproduced:
            raise HarnessError("%s/%s: counterexample does not reproduce on the real code (encoding or oracle "
                               "problem): inputs=%r detail=%s" % (self.name, label, jsonable(inputs), detail))
        if finding is not None and finding.get("exc") is not None and real is not None and \
                not (real[0] == "exc" and real[1] in finding["exc"]):
            finding = None      # a different failure inside a known region is a new violation
        if finding is not None and finding.get("real_is_none") and real is not None and \
                not (real[0] == "ret" and real[1] is None):
            finding = None
        if finding is not None:
            self.known_hits.setdefault(finding["id"], {"what": finding["what"], "example": jsonable(inputs),
                                                       "detail": detail})
        else:
            self.violations.append(Violation(self.full, label, inputs, detail, raw=self.model_inputs(model)))

    def sat_witness(self, label, conds):
        """reachability twin: the conjunction must be satisfiable (guards against vacuity)"""
        r, m, _ = self._solve(list(self.assumptions) + list(conds), timeout_ms=60000)
        if r != z3.sat:
            raise HarnessError("%s/%s: reachability witness is %s (vacuous harness?)" % (self.name, label, r))
        return m

    def result(self):
        return {
            "item": self.full, "obligations": self.obligations, "discharged": self.discharged, "paths": self.paths,
            "nontrivial": self.nontrivial, "validated": self.validated, "samples": self.samples,
            "violations": [v.asdict() for v in self.violations], "known_hits": self.known_hits,
            "solver_s": round(self.solver_s, 3), "queries": self.queries, "functions": sorted(self.functions),
            "notes": self.notes, "wall_s": round(time.time() - self._t0, 3),
            "decisions": 0, "cvc5_checked": self.cvc5_checked, "boundary_paths": self.boundary_paths,
        }


# --------------------------------------------------------------------------- generic decide loop

class PostCtx:
    """second argument world of a post-condition: conc is None while proving (outcome symbolic) and the concrete
    input dict while judging a real outcome during replay (then a Python-twin oracle may be used)."""

    def __init__(self, conc=None, path=None, model=None):
        self.conc, self.path, self.model = conc, path, model


def _call_post(post, kind, val, ctx):
    import inspect
    try:
        n = len(inspect.signature(post).parameters)
    except (TypeError, ValueError):
        n = 2
    r = post(kind, val, ctx) if n >= 3 else post(kind, val)
    if isinstance(r, SymBool):
        r = r.t
    return r


def decide(item, label, fn_sym, call_real, conc_inputs, post, maxpaths=20000, cmp=None, validate=True):
    """Explore fn_sym; validate every path against the real code; prove post on every path.

    post(kind, value[, ctx]) -> z3 Bool | bool.  It is evaluated on the symbolic outcome for the proof and again on
    the real, concrete outcome when a counterexample is replayed (kind 'exc' gets the exception *type name*).
    """
    if item.after is not None:
        return _decide_hist(item, label, fn_sym, call_real, conc_inputs, post, maxpaths)
    paths = item.explore(fn_sym, maxpaths=maxpaths)
    if not paths:
        raise HarnessError("%s/%s: no feasible path" % (item.name, label))
    for p in paths:
        if validate(p) if callable(validate) else validate:
            item.validate(p, call_real, conc_inputs, cmp)
        kind, val = p.kind, p.value
        claim = _call_post(post, kind, type(val).__name__ if kind == "exc" else val, PostCtx(None, p))

        def replay(model, _p=p):
            conc = conc_inputs(model)
            real = call_real(conc)
            c2 = _call_post(post, real[0], real[1], PostCtx(conc, _p, model))
            if z3.is_expr(c2):
                c2 = z3.is_true(ev_term(model, c2))
            return (not c2), conc, "real outcome %r violates the property" % (jsonable(real[:2]),), real
        item.prove(label, p.pc, claim, replay, path=p)
    return paths


# --------------------------------------------------------------------------- small z3 helpers for oracles

def to_int_term(x):
    if isinstance(x, SymInt):
        return x.toint()
    if isinstance(x, bool):
        return z3.IntVal(int(x))
    if isinstance(x, int):
        return z3.IntVal(x)
    if z3.is_expr(x):
        return x
    raise HarnessError("to_int_term(%s)" % type(x).__name__)


def to_real_term(x):
    if isinstance(x, SymReal):
        return x.t
    if isinstance(x, SymInt):
        return z3.ToReal(x.toint())
    if isinstance(x, bool):
        raise HarnessError("bool where a number was expected")
    if isinstance(x, int):
        return z3.RealVal(x)
    if isinstance(x, float):
        f = Fraction(x)  # observed value: exact binary
        return z3.RealVal("%d/%d" % (f.numerator, f.denominator))
    if isinstance(x, Fraction):
        return z3.RealVal("%d/%d" % (x.numerator, x.denominator))
    if z3.is_expr(x):
        return z3.ToReal(x) if z3.is_int(x) else x
    raise HarnessError("to_real_term(%s)" % type(x).__name__)


def is_int_like(x):
    return isinstance(x, (SymInt, int)) and not isinstance(x, bool)


def is_num_like(x):
    return isinstance(x, (SymInt, SymReal, int, float)) and not isinstance(x, bool)


def int_eq(x, spec):
    """outcome x (SymInt|int) equals spec (z3 Int term | int); type must be an int (not None/str/float)"""
    if not is_int_like(x):
        return False
    return to_int_term(x) == to_int_term(spec)


def real_close(x, spec, tol):
    """|x - spec| <= tol, x an int/float outcome"""
    if not is_num_like(x):
        return False
    d = to_real_term(x) - to_real_term(spec)
    t = to_real_term(tol)
    return z3.And(d <= t, -d <= t)


def str_eq(x, spec_chars):
    """outcome string equals a list of spec chars; each spec char is a str or a function ch -> z3 Bool ('is ch')"""
    if not isinstance(x, (str, SymStr)):
        return False
    xs = core.chars_of(x)
    if len(xs) != len(spec_chars):
        return False
    cs = []
    for a, b in zip(xs, spec_chars):
        cs.append(core.char_eq(a, b))
    return z3.And(cs) if cs else True


def zand(*xs):
    xs = [x.t if isinstance(x, SymBool) else x for x in xs]
    if any(x is False for x in xs):
        return False
    xs = [x for x in xs if x is not True]
    return z3.And(xs) if xs else True


def zor(*xs):
    xs = [x.t if isinstance(x, SymBool) else x for x in xs]
    if any(x is True for x in xs):
        return True
    xs = [x for x in xs if x is not False]
    return z3.Or(xs) if xs else False


def znot(x):
    if isinstance(x, SymBool):
        x = x.t
    if isinstance(x, bool):
        return not x
    return z3.Not(x)


def zimp(a, b):
    return zor(znot(a), b)


# --------------------------------------------------------------------------- history: one earlier call, then the call

def sibling(fr, fresh, prefix="p_"):
    """A second frame sharing every field object of fr except the symbolic fields named in `fresh`, which get new
    variables (and, for mixed-case frames, its own letter case): the frame "seen just before"."""
    parts = []
    for f in fr.order:
        short = f.name[len(fr.prefix):] if isinstance(f, Field) and fr.prefix and f.name.startswith(fr.prefix) else getattr(f, "name", None)
        if isinstance(f, Field) and f.var is not None and short in fresh:
            parts.append(Field(prefix + short, f.width, f.kind))
        else:
            parts.append(f)
    self = Frame.__new__(Frame)
    self.fields, self.order = {}, parts
    for f, g in zip(fr.order, parts):
        if isinstance(g, Field):
            for k, v in fr.fields.items():
                if v is f:
                    self.fields[k] = g
    self.nbits = fr.nbits
    self.bits = [b for f in parts for b in f.bits]
    self.case, self.prefix = fr.case, prefix
    n = self.nbits // 4
    self.casev = list(fr.casev) if fr.case != "mixed" else [z3.Bool("%scase%d" % (prefix, i)) for i in range(n)]
    self.msg = mkstr([HexChar(self.bits[4 * i:4 * i + 4], self.casev[i]) for i in range(n)])
    return self


def decide_after(item, label, fr, fr0, prior, fn_sym, path, post, maxpaths=20000, args_of=None):
    """History independence, decided symbolically: `prior` = [(dotted path, symbolic callable)] is run on the earlier
    frame fr0 first (whatever it returns or raises is discarded), then fn_sym() on fr in the same run, from the
    pristine module state; `post` (the property's own single-call claim about fr) must hold for the second outcome on
    every joint path.  A counterexample is replayed as that call sequence in a fresh interpreter."""
    def both():
        for _, g in prior:
            try:
                g()
            except Exception:       # noqa   outcome of the earlier call: irrelevant (steering exceptions pass through)
                pass
        return fn_sym()
    paths = item.explore(both, maxpaths=maxpaths)
    if not paths:
        raise HarnessError("%s/%s: no feasible path" % (item.name, label))
    for p in paths:
        kind, val = p.kind, p.value
        claim = _call_post(post, kind, type(val).__name__ if kind == "exc" else val, PostCtx(None, p))

        def replay(model, _p=p):
            m0, m1 = fr0.concrete(model), fr.concrete(model)
            a0 = args_of(model, m0) if args_of else [m0]
            a1 = args_of(model, m1) if args_of else [m1]
            calls = [[pp, a0] for pp, _ in prior] + [[path, a1]]
            seq = fresh_driver("call_sequence", calls)
            if seq[0] != "ret":
                raise HarnessError("call_sequence driver failed: %r" % (seq,))
            real = seq[1][-1]
            conc = {"calls": calls, "msg": m1}
            c2 = _call_post(post, real[0], real[1], PostCtx(conc, _p, model))
            if z3.is_expr(c2):
                c2 = z3.is_true(ev_term(model, c2))
            return (not c2), conc, "after %s, %s(%s) -> %r violates the property" % (
                ", ".join("%s(%s)" % (pp.split(".")[-1], m0) for pp, _ in prior), path.split(".")[-1], m1, jsonable(real[:2])), real
        item.prove(label, p.pc, claim, replay, path=p)
    return paths


def _decide_hist(item, label, fn_sym, call_real, conc_inputs, post, maxpaths):
    """decide() in history mode: the harness' own call is first made on an earlier frame fr0 (the item's first
    declared frame with the fields item.after renewed; outcome discarded), then on the frame itself in the same run
    from the pristine module state; the item's single-call claim must hold for the second outcome on every joint
    path.  The harness' closures read fr.msg when called, so the earlier call is made by swapping fr.msg."""
    fr = item.hist_frame
    if fr is None:
        raise HarnessError("%s: history mode needs a declared frame" % item.full)
    if item.hist_fr0 is None:
        item.hist_fr0 = sibling(fr, item.after)
        item.declare(item.hist_fr0)
    fr0 = item.hist_fr0

    def both():
        m = fr.msg
        fr.msg = fr0.msg
        try:
            fn_sym()
        except Exception:       # noqa  outcome of the earlier call: irrelevant
            pass
        finally:
            fr.msg = m
        return fn_sym()
    paths = item.explore(both, maxpaths=maxpaths)
    if not paths:
        raise HarnessError("%s/%s: no feasible path" % (item.full, label))
    for p in paths:
        kind, val = p.kind, p.value
        claim = _call_post(post, kind, type(val).__name__ if kind == "exc" else val, PostCtx(None, p))

        def replay(model, _p=p):
            conc = conc_inputs(model)
            m1, m0 = fr.concrete(model), fr0.concrete(model)
            conc0 = {k: (m0 if isinstance(v, str) and v == m1 else v) for k, v in conc.items()}
            fresh_replay()
            first = call_real(conc0)
            real = call_real(conc)
            fresh_replay()
            c2 = _call_post(post, real[0], real[1], PostCtx(conc, _p, model))
            if z3.is_expr(c2):
                c2 = z3.is_true(ev_term(model, c2))
            out = dict(conc)
            out["earlier_call"] = conc0
            if os.environ.get("SYMX_DEBUG"):
                print("DEBUG hist", _p.kind, repr(_p.value)[:600], "m1", m1, "m0", m0, "npc", len(_p.pc), "pc", [str(z3.simplify(x))[:300] for x in _p.pc][4:], "claim", str(claim)[:300], file=sys.stderr)
            return (not c2), out, "after the same call on %r (-> %r) the real outcome %r violates the property" % (
                jsonable(conc0), jsonable(first[:2]), jsonable(real[:2])), real
        item.prove(label + " (after an earlier call)", p.pc, claim, replay, path=p)
    return paths
