"""Replay server: runs in a separate interpreter with the UNPATCHED pyModeS from /repo/src.

Protocol: one JSON request per line on stdin, one JSON reply per line on stdout.
  {"fn": "pyModeS.common.crc", "args": [...], "kwargs": {...}}      call a function by dotted path
  {"driver": "name", "arg": {...}}                                    call symx/replay_drivers.py:name(arg)
Reply: {"ret": <encoded>} | {"exc": [type name, message]}
Values are encoded so that tuples, None, floats (incl. nan/inf), bytes survive JSON.
"""
import importlib
import json
import math
import os
import sys

SRC = os.environ.get("SYMX_REPO_SRC", "/repo/src")
sys.path.insert(0, SRC)
sys.path.insert(1, os.path.dirname(os.path.dirname(os.path.abspath(__file__))))


def enc(v):
    try:
        import numpy as np
        if isinstance(v, np.generic):
            v = v.item()
        elif isinstance(v, np.ndarray):
            v = v.tolist()
    except ImportError:
        pass
    if v is None or isinstance(v, (bool, str)):
        return v
    if isinstance(v, int):
        return {"i": str(v)} if abs(v) > 2 ** 53 else v
    if isinstance(v, float):
        if math.isnan(v) or math.isinf(v):
            return {"f": repr(v)}
        return {"f": v.hex()}
    if isinstance(v, tuple):
        return {"t": [enc(x) for x in v]}
    if isinstance(v, list):
        return [enc(x) for x in v]
    if isinstance(v, dict):
        return {"d": [[enc(k), enc(x)] for k, x in v.items()]}
    if isinstance(v, (bytes, bytearray)):
        return {"b": list(v)}
    return {"r": repr(v)}


def dec(v):
    if isinstance(v, list):
        return [dec(x) for x in v]
    if isinstance(v, dict):
        if "t" in v:
            return tuple(dec(x) for x in v["t"])
        if "f" in v:
            s = v["f"]
            return float.fromhex(s) if s.startswith(("0x", "-0x")) else float(s)
        if "i" in v:
            return int(v["i"])
        if "d" in v:
            return {dec_key(k): dec(x) for k, x in v["d"]}
        if "b" in v:
            return bytes(v["b"])
        if "r" in v:
            return v
    return v


def dec_key(k):
    k = dec(k)
    return tuple(k) if isinstance(k, list) else k


def resolve(path):
    parts = path.split(".")
    for n in range(len(parts), 0, -1):
        try:
            obj = importlib.import_module(".".join(parts[:n]))
        except ImportError:
            continue
        for p in parts[n:]:
            obj = getattr(obj, p)
        return obj
    raise ImportError(path)


def main():
    import pyModeS
    assert os.path.realpath(pyModeS.__file__).startswith(os.path.realpath(SRC)), pyModeS.__file__
    out = sys.stdout
    sys.stdout = sys.stderr  # code under test may print
    out.write(json.dumps({"ready": True, "common": pyModeS.common.__name__, "file": pyModeS.__file__}) + "\n")
    out.flush()
    for line in sys.stdin:
        line = line.strip()
        if not line:
            continue
        req = json.loads(line)
        try:
            if "driver" in req:
                from symx import replay_drivers
                r = getattr(replay_drivers, req["driver"])(dec(req.get("arg")))
            else:
                fn = resolve(req["fn"])
                r = fn(*dec(req.get("args", [])), **dec(req.get("kwargs", {})))
            rep = {"ret": enc(r)}
        except BaseException as e:  # noqa
            rep = {"exc": [type(e).__name__, str(e)[:300]]}
        out.write(json.dumps(rep) + "\n")
        out.flush()


if __name__ == "__main__":
    main()
