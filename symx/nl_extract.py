"""Extract the staircase of the REAL cprNL (unpatched /repo/src) by concrete evaluation: a 0.0005-degree grid over
[-90, 90], every change bisected down to two adjacent doubles. Run as a script under /venv/bin/python; prints JSON.

This is table extraction, not a solver verdict; the CPR checks use the table as a stub under assumption (A-NL):
cprNL is constant between consecutive extracted breakpoints.
"""
import json
import math
import os
import sys
from multiprocessing import Pool

SRC = os.environ.get("SYMX_REPO_SRC", "/repo/src")
STEP = 0.0005
N = 180000


def _f():
    sys.path.insert(0, SRC)
    import warnings
    warnings.simplefilter("ignore")
    import importlib
    mod = importlib.import_module(os.environ.get("SYMX_NL_MODULE", "pyModeS.py_common"))
    return mod.cprNL


def val(f, x):
    try:
        return int(f(x))
    except Exception as e:  # noqa
        return "exc:" + type(e).__name__


def chunk(rng):
    f = _f()
    lo, hi = rng
    out = []
    prev_x = lo * STEP
    prev_v = val(f, prev_x)
    first = (prev_x, prev_v)
    for k in range(lo + 1, hi + 1):
        x = k * STEP
        v = val(f, x)
        if v != prev_v:
            out += bisect(f, prev_x, prev_v, x, v)
        prev_x, prev_v = x, v
    return first, out


def bisect(f, a, va, b, vb):
    """all value changes between a and b (adjacent-double resolution); handles several changes inside one cell"""
    if math.nextafter(a, b) == b:
        return [(a.hex(), b.hex(), va, vb)]
    m = a + (b - a) / 2
    if m <= a or m >= b:
        m = math.nextafter(a, b)
    vm = val(f, m)
    out = []
    if vm != va:
        out += bisect(f, a, va, m, vm)
    if vm != vb:
        out += bisect(f, m, vm, b, vb)
    return out


def main():
    nproc = min(16, os.cpu_count() or 1)
    edges = [-N + (2 * N * i) // (nproc * 4) for i in range(nproc * 4 + 1)]
    ranges = [(edges[i], edges[i + 1]) for i in range(len(edges) - 1)]
    with Pool(nproc) as p:
        res = p.map(chunk, ranges)
    f = _f()
    breaks = []
    for first, out in res:
        breaks += out
    beyond = {repr(x): val(f, x) for x in (-269.99, -180.0, -100.0, -90.0000001, 90.0000001, 100.0, 180.0, 269.99)}
    json.dump({"start": res[0][0][1], "breaks": breaks, "beyond": beyond, "grid_step": STEP,
               "evaluations": 2 * N + 1}, sys.stdout)


if __name__ == "__main__":
    main()
