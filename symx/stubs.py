"""Environment stubs: libm as uninterpreted functions with range axioms, numpy helpers with exact models."""
import math as _math

import z3

from . import core
from .core import Ctx, SymBool, SymInt, SymReal, Unsupported, is_sym

R = z3.RealSort()
SQRT = z3.Function("SQRT", R, R)
ATAN2 = z3.Function("ATAN2", R, R, R)       # radians
DEG = z3.Function("DEG", R, R)
LOG10 = z3.Function("LOG10", R, R)


class MathShim:
    """stands in for the `math` module inside a pyModeS module namespace"""

    def __getattr__(self, name):
        return getattr(_math, name)

    @staticmethod
    def sqrt(x):
        if not is_sym(x):
            return _math.sqrt(x)
        t = SymReal.of(x).t
        r = SQRT(t)
        Ctx.cur.assume(r >= 0)
        return SymReal(r)

    @staticmethod
    def atan2(y, x):
        if not (is_sym(x) or is_sym(y)):
            return _math.atan2(y, x)
        return SymReal(ATAN2(SymReal.of(y).t, SymReal.of(x).t))

    @staticmethod
    def degrees(x):
        if not is_sym(x):
            return _math.degrees(x)
        r = DEG(SymReal.of(x).t)
        c = Ctx.cur
        c.assume(z3.And(r > -180, r <= 180))      # contract of degrees(atan2(.,.)), the only use in pyModeS
        return SymReal(r)

    @staticmethod
    def log10(x):
        if not is_sym(x):
            return _math.log10(x)
        t = SymReal.of(x).t
        if bool(SymBool(t <= 0)):
            raise ValueError("math domain error")
        return SymReal(LOG10(t))


class NpShim:
    """stands in for numpy inside a pyModeS module namespace: exact models for floor/isclose, the rest is numpy
    on concrete values and Unsupported on symbolic ones."""

    def __init__(self):
        import numpy
        self._np = numpy

    def __getattr__(self, name):
        v = getattr(self._np, name)
        if callable(v) and not isinstance(v, type):
            def guard(*a, **k):
                if any(is_sym(x) for x in a) or any(is_sym(x) for x in k.values()):
                    raise Unsupported("numpy.%s on a symbolic value" % name)
                return v(*a, **k)
            return guard
        return v

    @staticmethod
    def cos(x):
        if type(x).__name__ == "SymFP":
            from . import fp
            return fp.np_cos(x)
        if isinstance(x, (SymReal, SymInt)):
            return SymReal(RCOS(SymReal.of(x).t))
        import numpy
        return numpy.cos(x)

    @staticmethod
    def sin(x):
        if isinstance(x, (SymReal, SymInt)):
            return SymReal(RSIN(SymReal.of(x).t))
        if is_sym(x):
            raise Unsupported("numpy.sin on %s" % type(x).__name__)
        import numpy
        return numpy.sin(x)

    @staticmethod
    def radians(x):
        if isinstance(x, (SymReal, SymInt)):
            return SymReal(RRAD(SymReal.of(x).t))
        if is_sym(x):
            raise Unsupported("numpy.radians on %s" % type(x).__name__)
        import numpy
        return numpy.radians(x)

    @staticmethod
    def array(x, *a, **k):
        def has_sym(v):
            if isinstance(v, (list, tuple)):
                return any(has_sym(e) for e in v)
            return is_sym(v)
        if isinstance(x, list) and x and all(isinstance(v, (SymInt, int)) and not isinstance(v, bool) for v in x) \
                and any(isinstance(v, SymInt) for v in x) and not a and not k:
            if all((isinstance(v, int) and v in (0, 1)) or (isinstance(v, SymInt) and v.bits is not None and len(v.bits) == 1)
                   for v in x):
                return core.SymBitArr(x)
        isnum = lambda v: isinstance(v, (SymReal, SymInt, int, float)) and not isinstance(v, bool)
        if isinstance(x, (list, tuple)) and x and all(isinstance(r, (list, tuple)) and r and all(isnum(v) for v in r)
                                                      for r in x) and has_sym(x) and not a and not k:
            return SymMat([list(r) for r in x])
        if isinstance(x, tuple) and x and all(isnum(v) for v in x) and has_sym(x) and not a and not k:
            return SymVec(list(x))
        if isinstance(x, list) and x and all(isinstance(v, (SymReal, int, float)) and not isinstance(v, bool) for v in x) \
                and any(isinstance(v, SymReal) for v in x) and not a and not k:
            return SymArray1(x)
        if has_sym(x):
            return OpaqueArray("array")
        import numpy
        return numpy.array(x, *a, **k)

    @staticmethod
    def median(x, *a, **k):
        if isinstance(x, (list, tuple)) and any(isinstance(v, SymReal) for v in x) and not a and not k:
            if len(x) > 6:
                raise Unsupported("median of more than 6 symbolic values")
            vals = [SymReal.of(v) for v in x]
            # insertion sort with symbolic comparisons (each comparison may fork the path)
            srt = []
            for v in vals:
                pos = len(srt)
                for j, w in enumerate(srt):
                    if bool(v < w):
                        pos = j
                        break
                srt.insert(pos, v)
            n = len(srt)
            return srt[n // 2] if n % 2 else (srt[n // 2 - 1] + srt[n // 2]) / 2
        import numpy
        return numpy.median(x, *a, **k)

    @staticmethod
    def bitwise_xor(x, y):
        if isinstance(x, core.SymBitArr):
            return x.xor(y)
        if isinstance(y, core.SymBitArr):
            return y.xor(x)
        import numpy
        return numpy.bitwise_xor(x, y)

    @staticmethod
    def array2string(x, *a, **k):
        if isinstance(x, core.SymBitArr):
            if a or set(k) - {"separator"} or k.get("separator", " ") != "":
                raise Unsupported("array2string of a symbolic array with this formatting")
            if len(x) > 1000:
                raise Unsupported("array2string summarises long arrays")
            chars = ["["]
            for v in x.e:
                chars.append(core.BitChar(v.bits[0]) if isinstance(v, SymInt) else str(v))
            chars.append("]")
            return core.mkstr(chars)
        import numpy
        return numpy.array2string(x, *a, **k)

    @staticmethod
    def argmin(x, *a, **k):
        if isinstance(x, SymVec):
            return _argmin(x.v, nan_aware=False)
        if isinstance(x, OpaqueArray):
            raise Unsupported("numpy.argmin of an opaque array")
        import numpy
        return numpy.argmin(x, *a, **k)

    @staticmethod
    def nanargmin(x, *a, **k):
        if isinstance(x, SymVec):
            return _argmin(x.v, nan_aware=True)
        if isinstance(x, OpaqueArray):
            # some index, or ValueError when every entry is NaN: which one is numerics outside the model
            c = Ctx.cur
            if bool(SymBool(z3.Bool(c_fresh("allnan")))):
                raise ValueError("All-NaN slice encountered")
            i = z3.Int(c_fresh("argmin"))
            c.assume(z3.And(i >= 0, i <= 2))
            return SymInt(it=i, lo=0, hi=2)
        import numpy
        return numpy.nanargmin(x, *a, **k)

    @property
    def linalg(self):
        return _Linalg()

    @staticmethod
    def arccos(x):
        if type(x).__name__ == "SymFP":
            from . import fp
            return fp.np_arccos(x)
        if is_sym(x):
            raise Unsupported("numpy.arccos on a symbolic value")
        import numpy
        return numpy.arccos(x)

    @staticmethod
    def floor(x):
        if type(x).__name__ == "SymFP":
            return x.floor()
        if isinstance(x, SymReal):
            return core.real_floor(x)
        if isinstance(x, SymInt):
            return x
        import numpy
        return numpy.floor(x)

    @staticmethod
    def isclose(a, b, rtol=1e-05, atol=1e-08):
        if not (is_sym(a) or is_sym(b)):
            import numpy
            return numpy.isclose(a, b, rtol=rtol, atol=atol)
        if type(a).__name__ == "SymFP" or type(b).__name__ == "SymFP":
            from . import fp
            return fp.np_isclose(a, b, rtol, atol)
        a, b = SymReal.of(a), SymReal.of(b)
        return abs(a - b) <= atol + rtol * abs(b)


RSIN = z3.Function("RSIN", R, R)
RCOS = z3.Function("RCOS", R, R)
RRAD = z3.Function("RRAD", R, R)
_FRESH = [0]


def c_fresh(prefix):
    _FRESH[0] += 1
    return "__%s_%d" % (prefix, _FRESH[0])


class OpaqueArray:
    """a numpy array holding symbolic numbers: shape and content are not modelled, only that it flows into
    linalg.norm / nanargmin"""

    def __init__(self, what):
        self.what = what

    def _op(self, o):
        return OpaqueArray(self.what)

    __add__ = __radd__ = __sub__ = __rsub__ = __mul__ = __rmul__ = __truediv__ = _op

    def __getitem__(self, k):
        raise Unsupported("element of an opaque array")

    def __bool__(self):
        raise Unsupported("truth value of an opaque array")


class SymArray1:
    """1-D numpy array of reals holding symbolic values: exactly the operations of RtlReader._calc_noise"""

    def __init__(self, vals):
        self.v = list(vals)

    def reshape(self, *shape):
        if len(shape) == 1 and isinstance(shape[0], tuple):
            shape = shape[0]
        if len(shape) == 2 and shape[0] == -1 and isinstance(shape[1], int) and shape[1] > 0:
            w = shape[1]
            if len(self.v) % w:
                raise ValueError("cannot reshape array of size %d into shape (-1,%d)" % (len(self.v), w))
            return SymArray2([self.v[i:i + w] for i in range(0, len(self.v), w)])
        raise Unsupported("reshape%r of a symbolic array" % (shape,))


class SymArray2:
    def __init__(self, rows):
        self.rows = rows

    def mean(self, axis=None):
        if axis != 1:
            raise Unsupported("mean(axis=%r) of a symbolic array" % (axis,))
        out = []
        for r in self.rows:
            acc = None
            for v in r:
                acc = v if acc is None else acc + v
            out.append(acc / len(r))
        return out


NORM2 = z3.Function("NORM2", R, R, R)


def _nan(v):
    return isinstance(v, float) and v != v


class SymVec:
    """1-D array of reals, possibly with NaN entries"""

    def __init__(self, v):
        self.v = list(v)


class SymMat:
    """2-D array (rows of reals, possibly NaN): X - Mu and norm(axis=1), as used by is50or60"""

    def __init__(self, rows):
        self.rows = rows

    def __sub__(self, o):
        if isinstance(o, SymVec) and all(len(r) == len(o.v) for r in self.rows):
            return SymMat([[(float("nan") if _nan(a) or _nan(b) else a - b) for a, b in zip(r, o.v)] for r in self.rows])
        raise Unsupported("array arithmetic on symbolic arrays")


def _argmin(vals, nan_aware):
    """numpy.argmin / nanargmin over reals with NaN entries; comparisons of symbolic entries fork the path"""
    c = Ctx.cur
    if c is not None:
        c.notes.append(("argmin_input", list(vals)))
    nans = [k for k, v in enumerate(vals) if _nan(v)]
    if nans and not nan_aware:
        return nans[0]                      # NaN propagates: numpy.argmin returns the first NaN
    cand = [k for k in range(len(vals)) if k not in nans]
    if not cand:
        raise ValueError("All-NaN slice encountered")
    best = cand[0]
    for k in cand[1:]:
        if bool(SymReal.of(vals[k]) < SymReal.of(vals[best])):
            best = k
    return best


class _Linalg:
    @staticmethod
    def norm(x, *a, **k):
        if isinstance(x, SymMat) and k.get("axis") == 1 and not a:
            out = []
            for r in x.rows:
                if any(_nan(v) for v in r):
                    out.append(float("nan"))
                elif len(r) == 2:
                    t = NORM2(SymReal.of(r[0]).t, SymReal.of(r[1]).t)
                    Ctx.cur.assume(t >= 0)
                    out.append(SymReal(t))
                else:
                    raise Unsupported("norm of rows that are not 2-vectors")
            return SymVec(out)
        if isinstance(x, OpaqueArray):
            return OpaqueArray("norm")
        import numpy
        return numpy.linalg.norm(x, *a, **k)


MACH2CAS = z3.Function("MACH2CAS", R, R, R)
MACH2TAS = z3.Function("MACH2TAS", R, R, R)
CAS2TAS = z3.Function("CAS2TAS", R, R, R)


def _aero_stub(orig, uf):
    def f(a, b):
        if not (is_sym(a) or is_sym(b)):
            return orig(a, b)
        for v in (a, b):
            if isinstance(v, float) and v != v:
                return float("nan")           # NaN propagates through the conversion
        return SymReal(uf(SymReal.of(a).t, SymReal.of(b).t))
    f.__symx_stub__ = True
    f.__name__ = getattr(orig, "__name__", "aero")
    return f


class CapList:
    """contract stub for bds17.cap17 inside is17 (cap17 itself is checked in C11/C14): 'BDSxx' in caps <=> its bit"""
    ALL = ["05", "06", "07", "08", "09", "0A", "20", "21", "40", "41", "42", "43", "44", "45", "48", "50", "51", "52",
           "53", "54", "55", "56", "5F", "60"]

    def __init__(self, bits):
        self.bits = bits      # SymStr / str of 24 chars

    def __contains__(self, item):
        if isinstance(item, str) and item.startswith("BDS") and item[3:] in self.ALL:
            i = self.ALL.index(item[3:])
            r = self.bits[i] == "1"
            return bool(r)
        return False


def install_cap17_contract(pm):
    b17 = pm.decoder.bds.bds17
    if getattr(b17.cap17, "__symx_stub__", False):
        return
    orig = b17.cap17
    common = pm.common

    def cap17(msg):
        if not is_sym(msg):
            return orig(msg)
        d = common.hex2bin(common.data(msg))
        return CapList(d[:24])
    cap17.__symx_stub__ = True
    cap17.__wrapped__ = orig
    b17.cap17 = cap17


def install_summaries(pm, names=("is10", "is17", "is20", "is30", "is40", "is44", "is45", "is50", "is60")):
    """replace common.wrongstatus and the named bdsXX.isXX by summarized versions (idempotent)"""
    if not getattr(pm.common.wrongstatus, "__symx_summary__", None):
        pm.common.wrongstatus = core.summarized(pm.common.wrongstatus, "wrongstatus")
    for n in names:
        mod = getattr(pm.decoder.bds, "bds" + n[2:])
        f = getattr(mod, n)
        if not getattr(f, "__symx_summary__", None):
            setattr(mod, n, core.summarized(f, n))


def install(pm):
    """patch module namespaces of the loaded (rewritten) pyModeS"""
    import sys
    ms = MathShim()
    ns = NpShim()
    for name, mod in list(sys.modules.items()):
        if name == "pyModeS" or name.startswith("pyModeS."):
            d = mod.__dict__
            if "math" in d and getattr(d["math"], "__name__", "") == "math":
                d["math"] = ms
            if "np" in d and getattr(d["np"], "__name__", "") == "numpy":
                d["np"] = ns
    aero = sys.modules.get("pyModeS.extra.aero")
    if aero is not None and not getattr(aero.mach2cas, "__symx_stub__", False):
        aero.mach2cas = _aero_stub(aero.mach2cas, MACH2CAS)
        aero.mach2tas = _aero_stub(aero.mach2tas, MACH2TAS)
        aero.cas2tas = _aero_stub(aero.cas2tas, CAS2TAS)
    return pm
