"""Environment stubs: libm as uninterpreted functions with range axioms, numpy helpers with exact models."""
import math as _math

import z3

from . import core
from .core import Ctx, SymBool, SymInt, SymReal, Unsupported, is_sym

R = z3.RealSort()
SQRT = z3.Function("SQRT", R, R)
ATAN2 = z3.Function("ATAN2", R, R, R)       # radians
DEG = z3.Function("DEG", R, R)


class MathShim:
    """stands in for the `math` module inside a pyModeS module namespace"""

    def __getattr__(self, name):
        return getattr(_math, name)

    @staticmethod
    def sqrt(x):
        if not is_sym(x):
            return _math.sqrt(x)
        t = SymReal.of(x).t
        r = SQRT(t)
        Ctx.cur.assume(r >= 0)
        return SymReal(r)

    @staticmethod
    def atan2(y, x):
        if not (is_sym(x) or is_sym(y)):
            return _math.atan2(y, x)
        return SymReal(ATAN2(SymReal.of(y).t, SymReal.of(x).t))

    @staticmethod
    def degrees(x):
        if not is_sym(x):
            return _math.degrees(x)
        r = DEG(SymReal.of(x).t)
        c = Ctx.cur
        c.assume(z3.And(r > -180, r <= 180))      # contract of degrees(atan2(.,.)), the only use in pyModeS
        return SymReal(r)

    @staticmethod
    def log10(x):
        if not is_sym(x):
            return _math.log10(x)
        raise Unsupported("math.log10 of a symbolic value")


class NpShim:
    """stands in for numpy inside a pyModeS module namespace: exact models for floor/isclose, the rest is numpy
    on concrete values and Unsupported on symbolic ones."""

    def __init__(self):
        import numpy
        self._np = numpy

    def __getattr__(self, name):
        v = getattr(self._np, name)
        if callable(v) and not isinstance(v, type):
            def guard(*a, **k):
                if any(is_sym(x) for x in a) or any(is_sym(x) for x in k.values()):
                    raise Unsupported("numpy.%s on a symbolic value" % name)
                return v(*a, **k)
            return guard
        return v

    @staticmethod
    def cos(x):
        if type(x).__name__ == "SymFP":
            from . import fp
            return fp.np_cos(x)
        if is_sym(x):
            raise Unsupported("numpy.cos on a symbolic value")
        import numpy
        return numpy.cos(x)

    @staticmethod
    def arccos(x):
        if type(x).__name__ == "SymFP":
            from . import fp
            return fp.np_arccos(x)
        if is_sym(x):
            raise Unsupported("numpy.arccos on a symbolic value")
        import numpy
        return numpy.arccos(x)

    @staticmethod
    def floor(x):
        if type(x).__name__ == "SymFP":
            return x.floor()
        if isinstance(x, SymReal):
            return core.real_floor(x)
        if isinstance(x, SymInt):
            return x
        import numpy
        return numpy.floor(x)

    @staticmethod
    def isclose(a, b, rtol=1e-05, atol=1e-08):
        if not (is_sym(a) or is_sym(b)):
            import numpy
            return numpy.isclose(a, b, rtol=rtol, atol=atol)
        if type(a).__name__ == "SymFP" or type(b).__name__ == "SymFP":
            from . import fp
            return fp.np_isclose(a, b, rtol, atol)
        a, b = SymReal.of(a), SymReal.of(b)
        return abs(a - b) <= atol + rtol * abs(b)


def install(pm):
    """patch module namespaces of the loaded (rewritten) pyModeS"""
    import sys
    ms = MathShim()
    ns = NpShim()
    for name, mod in list(sys.modules.items()):
        if name == "pyModeS" or name.startswith("pyModeS."):
            d = mod.__dict__
            if "math" in d and getattr(d["math"], "__name__", "") == "math":
                d["math"] = ms
            if "np" in d and getattr(d["np"], "__name__", "") == "numpy":
                d["np"] = ns
    return pm
